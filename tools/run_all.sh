#!/bin/sh
# usage: tools/run_all.sh <tier> [ids...]   -- runs checks one after another, prints verdict and wall time
TIER="${1:-quick}"; shift
IDS="$@"
[ -z "$IDS" ] && IDS="C01 C02 C03 C04 C05 C06 C07 C08 C09 C10 C11 C12 C13 C14 C15 C16 C17 C18 C19 C20"
cd "$(dirname "$0")/.." || exit 2
for id in $IDS; do
  s=$(date +%s)
  out=$(./check $id --tier $TIER 2>&1); rc=$?
  e=$(date +%s)
  echo "$id rc=$rc wall=$((e-s))s $(echo "$out" | grep -E '^\[check\] C[0-9]+' | cut -c1-160)"
  echo "$out" | grep -E "^(VIOLATION|INCONCLUSIVE)" | cut -c1-300 | head -5
done
