#!/opt/veriftools/pyvenv/bin/python
"""usage: tools/calibrate_floors.py <tier> [factor] [ids...]  -- sets every event floor of that tier to
`factor` (default 0.5) of what the last run (evidence/<ID>.json of that tier) observed on the unchanged
tree; writes config/floors.json. The thorough tier is calibrated with 0.25: its runs are bounded by the
soft deadline rather than by the case budget when the machine is busy."""
import json, os, sys
V = os.path.dirname(os.path.dirname(os.path.abspath(__file__)))
sys.path.insert(0, os.path.join(V, "monitors"))
import propmeta
tier = sys.argv[1]
factor = float(sys.argv[2]) if len(sys.argv) > 2 else 0.5
only = set(sys.argv[3:])
p = os.path.join(V, "config", "floors.json")
cur = json.load(open(p)) if os.path.exists(p) else {}
for pid, m in sorted(propmeta.META.items()):
    if only and pid not in only:
        continue
    ev = os.path.join(V, "evidence", pid + ".json")
    if not os.path.exists(ev):
        continue
    e = json.load(open(ev))
    if e["tier"] != tier or e.get("verdict") == "violated":
        continue
    obs = e["coverage"]["observed"]
    new = {}
    for key in m.get("floors", {}).get(tier, {}):
        if key == "evaluations":
            got = e["coverage"]["evaluations"]
        elif key == "distinct_nontrivial":
            got = e["coverage"]["distinct_nontrivial"]
        else:
            got = obs.get(key, 0)
        new[key] = int(got * factor)
    cur.setdefault(pid, {})[tier] = new
    print(pid, tier, new)
json.dump(cur, open(p, "w"), indent=1, sort_keys=True)
