#!/bin/sh
# usage: tools/try_seeded.sh <patch.diff> <tier> <ID> [<ID> ...]
# Applies a seeded change to /repo, runs the named checks, and always restores /repo afterwards.
set -u
PATCH="$1"; TIER="$2"; shift 2
cd /repo || exit 2
if [ -n "$(git status --porcelain --untracked-files=no)" ]; then echo "/repo has uncommitted changes; refusing"; exit 2; fi
git apply "$PATCH" || { echo "patch does not apply"; exit 2; }
cd /verif
for id in "$@"; do
  echo "=== $id ($TIER) with $(basename $(dirname $PATCH))"
  ./check "$id" --tier "$TIER" 2>&1 | grep -E "VIOLATION|KNOWN-FINDING|INCONCLUSIVE|\[check\] (violation|C[0-9]+ )" | cut -c1-260 | head -12
  echo "exit=$?"
done
git -C /repo checkout -- . 
echo "restored: $(git -C /repo status --porcelain --untracked-files=no | wc -l) modified files left"
