#!/opt/veriftools/pyvenv/bin/python
"""usage: tools/thorough_table.py <run_all log> ...  -- markdown table (check, verdict, cases, distinct non-trivial, wall)
from the output of tools/run_all.sh; later logs override earlier ones per check."""
import re, sys
rows = {}
for path in sys.argv[1:]:
    for line in open(path):
        m = re.match(r"(C\d+) rc=(\d+) wall=(\d+)s \[check\] C\d+ (\w+) seed=(\d+): ([^;]+); evaluations=(\d+) distinct_nontrivial=(\d+)", line)
        if m:
            rows[m.group(1)] = m.groups()
print("| check | tier / seed | verdict | cases | distinct non-trivial | wall |")
print("|---|---|---|---|---|---|")
for k in sorted(rows):
    _, rc, wall, tier, seed, verdict, ev, dn = rows[k]
    print(f"| {k} | {tier} / {seed} | {verdict} | {int(ev):,} | {int(dn):,} | {int(wall)} s |")
