#!/bin/sh
# usage: tools/verify_seeded.sh <ID>  -- confirms an agent's seeded change in its scratch worktree /tmp/wt_<ID>:
# suite passes with the change; demo fails with it and passes without it. Writes /tmp/wt_<ID>/SEEDED/verify.txt
ID="$1"; W=/tmp/wt_$ID
cd $W || exit 2
R=$W/SEEDED/verify.txt; : > $R
git diff -- ciphercore-base/src > /tmp/verify_$ID.diff
if ! cmp -s /tmp/verify_$ID.diff SEEDED/patch.diff; then echo "NOTE: worktree diff differs from patch.diff" >> $R; fi
cargo test --workspace --no-fail-fast --offline > SEEDED/verify_suite.log 2>&1
echo "suite_with_change: exit=$? $(grep -E '^test result' SEEDED/verify_suite.log | awk '{p+=$4; f+=$6} END {print p" passed; "f" failed"}')" >> $R
mkdir -p ciphercore-base/tests && cp SEEDED/demo.rs ciphercore-base/tests/seeded_demo.rs
cargo test -p ciphercore-base --test seeded_demo --offline > SEEDED/verify_demo_with.log 2>&1
echo "demo_with_change: exit=$? $(grep -E '^test result' SEEDED/verify_demo_with.log | tail -1)" >> $R
git apply -R SEEDED/patch.diff
cargo test -p ciphercore-base --test seeded_demo --offline > SEEDED/verify_demo_without.log 2>&1
echo "demo_without_change: exit=$? $(grep -E '^test result' SEEDED/verify_demo_without.log | tail -1)" >> $R
git apply SEEDED/patch.diff
rm -rf ciphercore-base/tests
cat $R
