"""M8 - statistics: chi-square goodness-of-fit and two-sample tests at a fixed, very small
family-wise alpha (Bonferroni over the number of tests actually performed)."""
import numpy as np
from scipy import stats as sst

FAMILY_ALPHA = 1e-9


def merge_hists(list_of_dicts):
    out = {}
    for d in list_of_dicts:
        for k, v in d.items():
            a = np.array(v, dtype=np.int64)
            if k in out:
                out[k] = out[k] + a
            else:
                out[k] = a
    return out


def chi2_uniform(counts):
    counts = np.asarray(counts, dtype=np.float64)
    n = counts.sum()
    k = len(counts)
    if n == 0 or k < 2:
        return 1.0, 0.0
    exp = n / k
    stat = ((counts - exp) ** 2 / exp).sum()
    return float(sst.chi2.sf(stat, k - 1)), float(stat)


def chi2_expected(counts, probs):
    counts = np.asarray(counts, dtype=np.float64)
    probs = np.asarray(probs, dtype=np.float64)
    n = counts.sum()
    exp = n * probs
    keep = exp > 0
    if (counts[~keep] > 0).any():
        return 0.0, float("inf")
    stat = ((counts[keep] - exp[keep]) ** 2 / exp[keep]).sum()
    return float(sst.chi2.sf(stat, keep.sum() - 1)), float(stat)


def chi2_two_sample(c1, c2):
    c1 = np.asarray(c1, dtype=np.float64)
    c2 = np.asarray(c2, dtype=np.float64)
    keep = (c1 + c2) > 0
    c1, c2 = c1[keep], c2[keep]
    if len(c1) < 2:
        return 1.0, 0.0
    n1, n2 = c1.sum(), c2.sum()
    if n1 == 0 or n2 == 0:
        return 1.0, 0.0
    k1, k2 = np.sqrt(n2 / n1), np.sqrt(n1 / n2)
    stat = (((k1 * c1 - k2 * c2) ** 2) / (c1 + c2)).sum()
    return float(sst.chi2.sf(stat, len(c1) - 1)), float(stat)


class Family:
    """Collects tests, then decides each at FAMILY_ALPHA / number_of_tests."""

    def __init__(self):
        self.tests = []

    def add(self, name, p, stat, detail=None):
        self.tests.append((name, p, stat, detail))

    def decide(self):
        n = max(1, len(self.tests))
        thr = FAMILY_ALPHA / n
        bad = [(name, p, stat, detail) for (name, p, stat, detail) in self.tests if p < thr]
        minp = min([p for (_, p, _, _) in self.tests], default=1.0)
        return bad, {"statistical_tests": len(self.tests), "per_test_alpha": thr, "smallest_p_value": minp}
