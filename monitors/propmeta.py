"""Per-property metadata used by the orchestrator: evidence level, non-triviality rule, assumptions,
event floors (a run that observed fewer events is inconclusive), soft time budgets."""

COMMON_ASSUMPTIONS = [
    "verdict covers only the executions produced by this run (generated programs, inputs, configurations, seeds)",
    "harness built from /repo's working tree in a checked-release profile (opt-level 3, overflow checks and debug assertions on)",
]

M2_ASSUMPTION = (
    "three-party executor: a value crosses parties only at nodes annotated Send(s, r); every other node is "
    "evaluated by each party on its own values with the real SimpleEvaluator::evaluate_node; a party that fails on "
    "junk continues with junk"
)

META = {
    "C01": {
        "level": "translation_validation",
        "rule": "programs from the typed random generator G_mpc (3-12 operations of the MPC-compilable set, 1-4 inputs, "
                "all 11 scalar types) x random owner vector x output-party list x inline mode; a case is one "
                "(program, configuration); non-trivial = compiled, at least one non-public input, >= 2 operations, "
                ">= 1 Send marker in the compiled graph and at least one execution compared; distinct by structural hash "
                "of (program, configuration)",
        "assumptions": COMMON_ASSUMPTIONS + [
            "reference value = SimpleEvaluator on the instantiated source context (itself checked by C10/C16-C19)",
            "shared inputs are fed as additive shares produced by the harness' own generator; shared outputs are summed "
            "by the harness' own type-recursive adder",
        ],
        "floors": {"quick": {"compiled": 1500, "disagreements_checked": 3000, "distinct_nontrivial": 500},
                   "thorough": {"compiled": 30000, "disagreements_checked": 100000, "distinct_nontrivial": 10000}},
        "soft_s": {"quick": 150, "thorough": 1500},
    },
    "C02": {
        "level": "translation_validation",
        "rule": "same generator and configurations as C01; each compiled graph is executed by the three-party executor "
                "with junk fillings zeros / ones / random for values a party does not own and independent party seeds; "
                "non-trivial as in C01; distinct by structural hash of (program, configuration)",
        "assumptions": COMMON_ASSUMPTIONS + [M2_ASSUMPTION,
            "reference value = SimpleEvaluator on the instantiated source context"],
        "floors": {"quick": {"compiled": 1000, "disagreements_checked": 5000, "messages": 20000, "distinct_nontrivial": 300},
                   "thorough": {"compiled": 20000, "disagreements_checked": 150000, "messages": 500000, "distinct_nontrivial": 8000}},
        "soft_s": {"quick": 150, "thorough": 1500},
    },
}

HOOK_COMMITS = ["cdc558a"]
PY_SERVES = []
NOT_CLAIMED = {}
