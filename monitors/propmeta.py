"""Per-property metadata used by the orchestrator: evidence level, non-triviality rule, assumptions,
event floors (a run that observed fewer events is inconclusive), soft time budgets."""
import os

COMMON_ASSUMPTIONS = [
    "verdict covers only the executions produced by this run (generated programs, inputs, configurations, seeds)",
    "harness built from /repo's working tree in a checked-release profile (opt-level 3, overflow checks and debug assertions on)",
]

M2_ASSUMPTION = (
    "three-party executor: a value crosses parties only at nodes annotated Send(s, r); every other node is "
    "evaluated by each party on its own values with the real SimpleEvaluator::evaluate_node; a party that fails on "
    "junk continues with junk"
)

META = {
    "C01": {
        "level": "translation_validation",
        "rule": "programs from the typed random generator G_mpc (3-12 operations of the MPC-compilable set, 1-4 inputs, "
                "all 11 scalar types) x random owner vector x output-party list x inline mode; a case is one "
                "(program, configuration); non-trivial = compiled, at least one non-public input, >= 2 operations, "
                ">= 1 Send marker in the compiled graph and at least one execution compared; distinct by structural hash "
                "of (program, configuration)",
        "assumptions": COMMON_ASSUMPTIONS + [
            "reference value = SimpleEvaluator on the instantiated source context (itself checked by C10/C16-C19)",
            "shared inputs are fed as additive shares produced by the harness' own generator; shared outputs are summed "
            "by the harness' own type-recursive adder",
        ],
        "floors": {"quick": {"compiled": 1500, "disagreements_checked": 3000, "distinct_nontrivial": 500},
                   "thorough": {"compiled": 30000, "disagreements_checked": 100000, "distinct_nontrivial": 10000}},
        "soft_s": {"quick": 600, "thorough": 1200},
    },
    "C02": {
        "level": "translation_validation",
        "rule": "same generator and configurations as C01; each compiled graph is executed by the three-party executor "
                "with junk fillings zeros / ones / random for values a party does not own and independent party seeds; "
                "non-trivial as in C01; distinct by structural hash of (program, configuration)",
        "assumptions": COMMON_ASSUMPTIONS + [M2_ASSUMPTION,
            "reference value = SimpleEvaluator on the instantiated source context"],
        "floors": {"quick": {"compiled": 1000, "disagreements_checked": 5000, "messages": 20000, "distinct_nontrivial": 300},
                   "thorough": {"compiled": 20000, "disagreements_checked": 150000, "messages": 500000, "distinct_nontrivial": 8000}},
        "soft_s": {"quick": 600, "thorough": 1200},
    },
}

HOOK_COMMITS = ["cdc558a"]
PY_SERVES = []
NOT_CLAIMED = {}


def post_C13(agg, info):
    import c13_json
    v, cov = c13_json.check_dir(os.path.join(info["tmpdir"], "aux"), info["seed"], info["tier"], info["nshards"])
    problems = []
    if cov["json_texts_checked_by_python"] == 0:
        problems.append("python JSON checker saw no records")
    return v, cov, problems


META["C13"] = {
    "level": "exploration",
    "rule": "exhaustive over all values of the 8- and 16-bit types; boundary sets {0, +-1, +-2^j, +-2^j+-1, min, max} plus uniform "
            "values for 32/64/128-bit types; bit arrays of every length 1..70; every (writer type, reader width) pair; random nested "
            "typed values (depth <= 4, all 11 scalar types, empty tuples/vectors) through the human-readable JSON form; a case is one "
            "chunk of <= 256 integers or one typed value; non-trivial = integer chunks always, typed values that are arrays or "
            "containers; distinct by hash of (type, contents)",
    "assumptions": COMMON_ASSUMPTIONS + [
        "oracle = the harness' own encoder/decoder of the documented layout and native two's-complement casts",
        "JSON texts are additionally parsed by Python's json (arbitrary precision) and compared with the intended integers",
    ],
    "floors": {"quick": {"reader_calls": 5000, "json_roundtrips": 2000, "check_type_calls": 5000, "distinct_nontrivial": 1500},
               "thorough": {"reader_calls": 50000, "json_roundtrips": 50000, "distinct_nontrivial": 20000}},
    "exhaustive_note": "all 2^8 and 2^16 values of u8/i8/u16/i16 and both bit values were enumerated through every writer and reader",
}


def _viol(sig, what, info, detail=None):
    d = {"what": what}
    if detail:
        d.update(detail)
    return {"sig": sig, "case": "stats", "seed": info["seed"], "tier": info["tier"], "shard": 0,
            "nshards": info["nshards"], "detail": d}


def post_C14(agg, info):
    import stats
    hists = stats.merge_hists(agg["extra"].get("hist", []))
    fam = stats.Family()
    groups = {}
    for name, h in hists.items():
        p, st = stats.chi2_uniform(h)
        fam.add("uniform:" + name, p, st)
        kind_party, secret = name.rsplit(".secret", 1)
        groups.setdefault(kind_party, []).append((secret, h))
    for kp, lst in groups.items():
        for i in range(len(lst)):
            for j in range(i + 1, len(lst)):
                p, st = stats.chi2_two_sample(lst[i][1], lst[j][1])
                fam.add(f"two-sample:{kp}:secret{lst[i][0]}-vs-{lst[j][0]}", p, st)
    bad, cov = fam.decide()
    viol = []
    for name, p, st, _ in bad:
        kind = name.split(":")[0] + ":" + name.split(":")[1].split(".party")[0]
        viol.append(_viol("C14|distribution|" + kind,
                          f"the pair of shares one party holds is not uniform / depends on the secret: {name} p={p:.3g} chi2={st:.1f}", info))
    cov["histograms"] = len(hists)
    cov["draws_per_histogram"] = int(max([int(h.sum()) for h in hists.values()], default=0))
    problems = [] if hists else ["no histograms were produced"]
    return viol, cov, problems


META["C14"] = {
    "level": "exploration",
    "rule": "random nested typed values (depth <= 3, all 11 scalar types, arrays, tuples, named tuples, vectors incl. empty) with uniform / "
            "extreme / small / zero / all-ones contents, each shared with a fresh generator seed through TypedValue::secret_share, "
            "get_local_shares_for_each_party, ReplicatedShares (for parties / local evaluation) and share_vector; a case is one typed "
            "value; all are non-trivial; distinct by hash of (type, contents). Distribution part: the pair (slot i, slot i+1) of each "
            "party over many generator seeds for BIT secrets {0,1} and u8 secrets {0,1,255,0x5a}",
    "assumptions": COMMON_ASSUMPTIONS + [
        "reconstruction is checked with the harness' own type-recursive modular adder",
        "distribution: chi-square goodness of fit (uniform) and two-sample tests between secrets at family-wise alpha 1e-9 (Bonferroni); "
        "detects gross dependence / non-uniformity, not sub-percent bias",
    ],
    "floors": {"quick": {"layouts_checked": 8000, "reveals": 6000, "distribution_draws": 100000, "distinct_nontrivial": 2000},
               "thorough": {"layouts_checked": 200000, "reveals": 150000, "distribution_draws": 2000000, "distinct_nontrivial": 40000}},
}


def post_C15(agg, info):
    import stats
    hists = stats.merge_hists(agg["extra"].get("hist", []))
    moduli = [int(x) for x in (agg["extra"].get("moduli") or [[]])[0]]
    fam = stats.Family()
    for name, h in hists.items():
        if name.startswith("range.thirds."):
            m = moduli[int(name.rsplit(".", 1)[1])]
            ceil = lambda a, b: -(-a // b)
            cnt = [ceil((c + 1) * m, 3) - ceil(c * m, 3) for c in range(3)]
            p, st = stats.chi2_expected(h, [c / m for c in cnt])
            fam.add(name + f"(m={m})", p, st)
        elif name.startswith("permpos."):
            n = int(name.rsplit(".", 1)[1])
            for pos in range(n):
                p, st = stats.chi2_uniform(h[pos * n:(pos + 1) * n])
                fam.add(f"{name}.pos{pos}", p, st)
        else:
            p, st = stats.chi2_uniform(h)
            fam.add(name, p, st)
    bad, cov = fam.decide()
    viol = []
    for name, p, st, _ in bad:
        kind = ".".join(name.split("(")[0].split(".")[:2])
        viol.append(_viol("C15|bias|" + kind, f"distribution test failed: {name} p={p:.3g} chi2={st:.1f}", info))
    cov["histograms"] = len(hists)
    cov["samples_per_histogram"] = {k: int(v.sum()) for k, v in hists.items()}
    cov["statistical_reach"] = "gross bias only: modulo bias of relative size < 1 % is below what these sample sizes resolve"
    problems = [] if hists else ["no histograms were produced"]
    return viol, cov, problems


META["C15"] = {
    "level": "exploration",
    "rule": "random call schedules of 20-200 PRF / PermutationFromPRF evaluations over 1-4 keys (incl. all-zero and one-bit-apart keys), "
            "counters incl. 0, 2^64-1 and runs of neighbouring counters, output types from 1 bit to 9.6 KB and nested containers, spread over 3 "
            "evaluator instances; relation monitor: no 16-byte window shared between the answers of different (key, counter) pairs; 3 evaluator "
            "instances; PRNG scripts replayed from the same seed; Random/RandomPermutation nodes; a case is one schedule / script; "
            "non-trivial = at least 2 distinct (key, counter, type) triples observed; distinct by hash of schedule parameters. "
            "Statistics: byte histograms, all n! outcomes of permutations n=2..5, position-wise uniformity n=6..8, three-thirds "
            "cells of get_random_in_range at adversarial moduli",
    "assumptions": COMMON_ASSUMPTIONS + [
        "history monitor: the first observed answer per (key bytes, counter, type) is the model for all later observations",
        "chi-square tests at family-wise alpha 1e-9 (Bonferroni)",
    ],
    "floors": {"quick": {"prf_calls": 30000, "repeat_observations": 10000, "prng_replays": 300, "stat_permutations": 50000, "distinct_nontrivial": 500},
               "thorough": {"prf_calls": 1000000, "repeat_observations": 300000, "prng_replays": 10000, "stat_permutations": 1000000, "distinct_nontrivial": 15000}},
}


META["C16"] = {
    "level": "exploration",
    "rule": "six comparisons + Min/Max x signed/unsigned; ALL operand pairs for widths 1..6 (quick) / 1..8 (thorough), each as one "
            "vectorised graph ([2^w,1,w] against [2^w,w]); for widths 7..16, 17, 24, 31, 32, 33, 63, 64, 65, 127, 128: equal operands, "
            "adjacent values, sign boundaries, single-bit differences, complements and uniform pairs, under 6 broadcast shape pairs; "
            "a case is one (operation, signedness, width, shape pair, operand set); all cases are non-trivial; distinct by hash of these",
    "assumptions": COMMON_ASSUMPTIONS + [
        "oracle = native integer comparison of the decoded operands (bit 0 first; two's complement when signed)",
        "graphs are instantiated with run_instantiation_pass and evaluated with SimpleEvaluator (thorough: also after inlining in each mode)",
    ],
    "floors": {"quick": {"pairs_compared": 60000, "distinct_nontrivial": 800},
               "thorough": {"pairs_compared": 1500000, "distinct_nontrivial": 20000}},
    "exhaustive_note": "operand pairs of all widths up to the stated bound were enumerated completely for every operation and signedness",
}

META["C17"] = {
    "level": "exploration",
    "rule": "BinaryAdd (both overflow flags): all pairs for n in {1,2,4,8}, corner and uniform pairs for n in {16,32,64,128}; Mux: random "
            "broadcast shape triples with bit and integer payloads; Clip2K: n in {8,16,32,64}, every k in 0..n-2, all values for n=8, "
            "boundaries otherwise; LongDivision signed/unsigned: all (a, d != 0) for n in {2,4,8}, corners (min/-1, 0/d, |d|=1, a=+-d) "
            "and uniform pairs for n in {16,32,64} (128 in thorough), mixed widths; a case is one graph evaluation over an operand "
            "array; all non-trivial; distinct by hash of (operation, parameters, operand draw)",
    "assumptions": COMMON_ASSUMPTIONS + [
        "oracle = native arithmetic: (a+b) mod 2^n and carry, selector ? b : c, clip, floored division",
        "zero divisors are outside the property and are skipped",
    ],
    "floors": {"quick": {"adder_pairs": 80000, "mux_elements": 2500, "clip_elements": 8000, "division_pairs": 60000, "distinct_nontrivial": 1000},
               "thorough": {"adder_pairs": 150000, "mux_elements": 100000, "clip_elements": 8000, "division_pairs": 100000, "distinct_nontrivial": 20000}},
    "exhaustive_note": "BinaryAdd n<=8, Clip2K n=8 and LongDivision n<=8 were enumerated over all operands",
}


def post_C10(agg, info):
    import exec_check
    v, cov = exec_check.check_dir(os.path.join(info["tmpdir"], "aux"), "c10", "C10", info["seed"], info["tier"], info["nshards"])
    problems = []
    floor = 8000 if info["tier"] == "quick" else 150000
    if cov["outputs_compared"] < floor:
        problems.append(f"too few events: outputs_compared={cov['outputs_compared']} < floor {floor}")
    return v, cov, problems


META["C10"] = {
    "level": "exploration",
    "rule": "one-operation graphs built through the real API: 27 operation classes (arithmetic, mixed multiply, dot incl. scalar "
            "operands, matmul incl. rank-1 operands, gemm with both flags, sum over axis subsets, cumsum, get, slices with negative "
            "steps / ellipsis / single indices, gather, axis permutations, reshape, stack with outer shapes, concatenate, array<->vector, "
            "tuples, vectors, zip/repeat, A2B, B2A, plaintext truncation, zeros/ones/constants, permutation utilities) x all 11 scalar "
            "types x random shapes up to rank 4 with size-1 broadcasting x uniform and extreme element values (0, 1, -1, min, max, "
            ">= 2^64); every execution is recorded and re-computed by the NumPy reference interpreter; a case is one graph; all "
            "non-trivial; distinct by hash of the serialized graph",
    "assumptions": COMMON_ASSUMPTIONS + [
        "oracle = monitors/refinterp.py: numpy object arrays of Python ints reduced mod 2^w (np.matmul, np.dot, broadcasting, basic "
        "slicing, transpose, reshape, stack, concatenate, cumsum, take), values decoded from raw bytes by the documented layout",
        "an evaluation error is accepted only where the reference semantics also reject (invalid permutation / index)",
    ],
    "floors": {"quick": {"executions_recorded": 8000, "distinct_nontrivial": 3000},
               "thorough": {"executions_recorded": 150000, "distinct_nontrivial": 50000}},
}
PY_SERVES.extend(["C10", "C13", "C14", "C15"])


def post_C09(agg, info):
    import exec_check
    v, cov = exec_check.check_dir(os.path.join(info["tmpdir"], "aux"), "c09", "C09", info["seed"], info["tier"], info["nshards"])
    # value mismatches found on multi-operation graphs belong to C10's statement; they are reported here only as
    # type-soundness problems when the TYPE differs. Value differences are still violations of "value has the
    # encoding of the inferred type" only if types differ, so keep type/eval/panic signatures and drop pure value ones.
    v = [x for x in v if "|value_mismatch|" not in x["sig"]]
    problems = []
    floor = 1500 if info["tier"] == "quick" else 30000
    if cov["node_types_cross_checked"] < floor:
        problems.append(f"too few events: node_types_cross_checked={cov['node_types_cross_checked']} < floor {floor}")
    return v, cov, problems


META["C09"] = {
    "level": "exploration",
    "rule": "random graphs of 3-15 nodes over ALL primitive operations (G_any: arithmetic, matmul family, structural ops, conversions, "
            "tuples/vectors, call/iterate, truncation, Random/PRF, gather, permutation utilities, sort, segment cumsum, switching-map "
            "helpers, print/assert) built by trial through the real add_node; about one proposal in three is rejected by type inference; "
            "inputs uniform / extreme, index-like constants both valid and invalid; a case is one graph; non-trivial = at least 3 "
            "accepted operations and at least one completed evaluation; distinct by structural hash. One proposal in eight is a deliberate near "
            "miss of a shape-sensitive operation, one in 24 a Reshape between arbitrary container types (leaves regrouped, single leaves "
            "reshaped, near misses in scalar type / element count / leaf count)",
    "assumptions": COMMON_ASSUMPTIONS + [
        "online type monitor: Value::check_type(node type) plus an independent layout check on every node value",
        "an evaluation Err is accepted only when raised by a data-dependent operation (VectorGet, permutation / gather index validity, "
        "cuckoo helpers, Assert, joins, sort, segment cumsum)",
        "offline: the NumPy model re-derives every node's shape and scalar type for graphs it supports",
    ],
    "floors": {"quick": {"graphs": 8000, "node_values_checked": 80000, "distinct_nontrivial": 3000},
               "thorough": {"graphs": 200000, "node_values_checked": 2000000, "distinct_nontrivial": 80000}},
}
PY_SERVES.append("C09")


META["C06"] = {
    "level": "translation_validation",
    "rule": "fully inlined graphs from G_inl (4-18 operations: foldable constant expressions, tuple / vector / zip / array-to-vector "
            "proxies with getters, A2B/B2A chains incl. sign-changing ones followed by Truncate, duplicated sub-expressions with and "
            "without annotations, dangling nodes, unused and named inputs, NOP[Send] nodes (also over constant expressions), the same binary "
            "operation with swapped operands, Random / PRF nodes) given to "
            "optimize_context; a case is one graph; non-trivial = the optimizer folded, merged or removed at least one node; distinct "
            "by structural hash",
    "assumptions": COMMON_ASSUMPTIONS + [
        "randomness replay: Random / RandomPermutation nodes of the optimised graph are answered from the tape recorded on the "
        "original graph, keyed by the original node's identity through the returned mapping",
        "three-party comparison uses the executor of C02 with per-party tapes keyed the same way",
        "an optimizer Err is counted, not alarmed",
    ],
    "floors": {"quick": {"optimizer_runs": 4000, "mapped_nodes_compared": 50000, "evaluation_pairs": 8000, "reloads": 4000,
                         "three_party_pairs": 300, "distinct_nontrivial": 2000},
               "thorough": {"optimizer_runs": 80000, "mapped_nodes_compared": 1000000, "evaluation_pairs": 200000, "reloads": 80000,
                            "three_party_pairs": 6000, "distinct_nontrivial": 40000}},
}


META["C04"] = {
    "level": "exploration",
    "rule": "G_mpc programs (incl. truncation, mixed multiply / OT, call and iterate bodies inlined several times) x random owner / "
            "output / inline-mode configuration: the main graph after prepare_for_mpc_evaluation and after the whole compile_context "
            "pipeline is walked for PRF-counter uniqueness, one execution's PRF-call log is checked for a repeated (key, counter), and "
            "the pre-optimisation compiler output as well as G_inl graphs (Random / PRF nodes keyed by constants, inputs and Random "
            "nodes, pairs with equal key and counter) are given to optimize_context whose mapping is inspected; a case is one "
            "(program, configuration) or one G_inl graph; non-trivial = at least 2 PRF nodes (compiled) / at least one randomising or "
            "PRF node (G_inl); distinct by structural hash",
    "assumptions": COMMON_ASSUMPTIONS + [
        "uniqueness and multiset preservation are decided by inspection of the live graphs returned by the real pipeline",
        "a randomising node that is absent from the mapping is accepted (dropped as dangling); semantic equality of the outputs "
        "under replayed randomness guards against dropping a needed one",
    ],
    "floors": {"quick": {"graphs_walked": 4000, "prf_nodes_seen": 40000, "prf_calls_logged": 20000, "optimizer_runs": 10000,
                         "random_or_prf_nodes_mapped": 10000, "distinct_nontrivial": 3000},
               "thorough": {"graphs_walked": 80000, "prf_nodes_seen": 800000, "prf_calls_logged": 400000, "optimizer_runs": 200000,
                            "random_or_prf_nodes_mapped": 200000, "distinct_nontrivial": 60000}},
}


META["C07"] = {
    "level": "translation_validation",
    "rule": "G_iter contexts: one iteration body per strategy class (general incl. bodies that call other graphs, empty state, "
            "associative with add / multiply / and / xor / Min / Max / 2x2 matmul / left and right projection, one-bit state scalar "
            "or batched, small state with last dimension 1..4 and 0-2 batch dimensions and row-wise bodies, bodies that draw "
            "randomness), optionally wrapped in a called graph and iterated twice; vector lengths 0..40 in rotation (extra weight on "
            "0, 1, 2, 15, 16, 17, 31, 32, 33); default mode in {simple, depth-optimised default, extreme} x call / iterate overrides in "
            "{none, noop, simple, default, extreme}; a case is one (context, inline configuration); non-trivial = fully inlined, "
            "length >= 2 and at least one compared evaluation; distinct by structural hash of (context, length, configuration)",
    "assumptions": COMMON_ASSUMPTIONS + [
        "reference = SimpleEvaluator's native Call / Iterate evaluation of the instantiated, un-inlined context",
        "generated bodies satisfy the stated contracts by construction (associative combine operations; one-bit bodies affine in the "
        "state; small-state bodies built from row-wise operations only)",
    ],
    "floors": {"quick": {"inlined_contexts": 4000, "evaluation_pairs": 9000, "random_copy_checks": 200, "distinct_nontrivial": 2500},
               "thorough": {"inlined_contexts": 70000, "evaluation_pairs": 300000, "random_copy_checks": 4000, "distinct_nontrivial": 40000}},
}


META["C08"] = {
    "level": "translation_validation",
    "rule": "G_custom contexts: 2-8 (plus repeats) custom nodes drawn from all 24 library operation families with parameters varied "
            "independently of the argument types, the same family repeated with other parameters on identical argument types, "
            "operations nested in a called graph and in an iterate body; plus a systematic collision probe: for every family, "
            "parameterisations #0, #1, #7, #0 on identical argument types in one context; a case is one context; non-trivial = "
            "instantiated, >= 2 custom nodes and at least one compared evaluation; distinct by structural hash incl. parameters",
    "assumptions": COMMON_ASSUMPTIONS + [
        "reference semantics: each Custom node is evaluated through a fresh single-operation instantiation for the argument types at "
        "hand (what the library's unit tests do), inside the observing evaluator",
        "contexts that fail to BUILD (type errors at custom_op) are not cases",
    ],
    "floors": {"quick": {"contexts": 1000, "instantiated": 800, "evaluation_pairs": 1500,
                         "contexts_with_two_parameterisations_of_one_family": 300, "distinct_nontrivial": 600},
               "thorough": {"contexts": 25000, "instantiated": 20000, "evaluation_pairs": 60000,
                            "contexts_with_two_parameterisations_of_one_family": 8000, "distinct_nontrivial": 15000}},
}


META["C11"] = {
    "level": "exploration",
    "rule": "random histories of 30-120 API calls over 1-2 contexts and up to 6 graphs: create graph, add node of any operation through "
            "the typed builder (valid and invalid arguments), crafted bad additions (dependency from another graph / context, giant "
            "types that only fail the size estimate, add_node_with_type with a valid and an invalid type, call / iterate with "
            "unfinalized, younger or foreign callees), node and graph names (fresh / duplicate / on finalized), node and graph "
            "annotations, set output (own / foreign node, repeated), finalize graph, set main (own / foreign graph), finalize context, "
            "read-only getters; a case is one history; non-trivial = at least 3 rejected and 10 accepted calls; distinct by hash of the "
            "call log",
    "assumptions": COMMON_ASSUMPTIONS + [
        "state is observed through the read-only hook Context::verif_dump (feature verif-hooks) and the serialized context, at the "
        "quiescent point after every call",
        "sequential model = transition relation over that dump: a failed or read-only call must leave dump and serialized text "
        "identical; a successful call must produce exactly the predicted post-state; mutators on finalized graphs / contexts must fail",
    ],
    "floors": {"quick": {"histories": 2500, "api_calls": 150000, "calls_err": 20000, "no_effect_checks": 30000, "distinct_nontrivial": 2000},
               "thorough": {"histories": 80000, "api_calls": 5000000, "calls_err": 600000, "no_effect_checks": 1000000, "distinct_nontrivial": 60000}},
}


META["C12"] = {
    "level": "exploration",
    "rule": "contexts from 8 producers (G_any plain graphs; an unfinalized context with names, quotes, 128-bit constants and every "
            "annotation kind; G_custom; instantiated; inlined in each mode; compiled by the whole MPC pipeline; optimised) are "
            "serialized, reloaded, compared (deep_equal, text stability, evaluation with the same seed) and then mutated 150 / 600 "
            "times over both layers (truncation of envelope and of inner payload, version changes, inner payload that is not a "
            "context, type confusion at a random JSON path, perturbed ids in dependency / output / name / annotation tables, removed "
            "fields, duplicated entries, non-UTF-8, garbage, deep nesting); a case is one base context; non-trivial = serialized text "
            "> 300 bytes; distinct by hash of the text",
    "assumptions": COMMON_ASSUMPTIONS + [
        "a mutated text that is accepted is inspected with the invariant walker of C11 through the read-only hook",
        "panics are captured at the from_slice call",
    ],
    "floors": {"quick": {"round_trips": 350, "mutated_texts": 30000, "mutants_rejected": 15000, "distinct_nontrivial": 300},
               "thorough": {"round_trips": 6000, "mutated_texts": 1500000, "mutants_rejected": 700000, "distinct_nontrivial": 5000}},
}


META["C05"] = {
    "level": "exploration",
    "rule": "one-node Truncate graphs over arrays of 48-128 inputs; all 10 integer scalar types; divisors 2^k with k in {1, 2, w/2, w-3, "
            "w-2} (quick) / every k in 1..w-2 (thorough) and, for signed types, {3, 5, 7, 10, 100, 1000, 2^(w/2)+-1}; inputs: range "
            "boundaries of the documented domain, 0, +-1, multiples of the divisor +-1, then uniform values of the range (and |x| <= 2^20 "
            "for the small-input claim on 64/128-bit types); owner in {party, shared, public} x outputs in {one party, two, all, "
            "secret-shared} x inline mode; each case is executed by one global evaluator with several seeds and by three separate "
            "parties; non-trivial = private input and at least one result vector checked; distinct by (type, divisor, configuration, draw)",
    "assumptions": COMMON_ASSUMPTIONS + [
        "oracle = integer arithmetic on the decoded inputs: floor quotient or floor quotient + 1 for 2^k; plaintext quotient +-1 for a "
        "general divisor, with the documented wrap-around (+-2^w/d) classified and counted, and rejected for small inputs on wide types; "
        "exact plaintext quotient for public inputs", M2_ASSUMPTION,
    ],
    "floors": {"quick": {"compiled": 2000, "elements_checked": 400000, "three_party_executions": 2000, "distinct_nontrivial": 1500},
               "thorough": {"compiled": 20000, "elements_checked": 10000000, "three_party_executions": 40000, "distinct_nontrivial": 15000}},
}


META["C18"] = {
    "level": "exploration",
    "rule": "plaintext Sort on tables with 1..12 rows (one in 60: 40-700 rows) x key widths 1..10 bits (every combination in rotation), keys drawn from 1-3 distinct "
            "values / uniform / already sorted / reversed, 0-2 payload columns of any scalar type and rank 1-3, key column at any "
            "position; SortByIntegerKey over all 11 key types incl. negative keys; permutations: all n! for n <= 5 and random ones up to "
            "12 through apply / apply-inverse / inverse_permutation round trips; compiled Sort, SortByIntegerKey and ApplyPermutation "
            "(1-8 rows, one in 40: 24-160 rows) under random owner / output / inline configurations executed by one evaluator and by three parties; a case is one table "
            "or permutation; non-trivial = at least 2 rows; distinct by hash of (type, contents / configuration)",
    "assumptions": COMMON_ASSUMPTIONS + [
        "oracle = Rust's stable sort on row indices by the key (bit strings compared lexicographically from index 0; integer keys by "
        "numeric value), the same row order applied to every column", M2_ASSUMPTION,
    ],
    "floors": {"quick": {"tables_compared": 3500, "permutation_round_trips": 1000, "compiled": 80, "compiled_executions": 150,
                         "three_party_executions": 150, "distinct_nontrivial": 3000},
               "thorough": {"tables_compared": 70000, "permutation_round_trips": 20000, "compiled": 1600, "compiled_executions": 3000,
                            "three_party_executions": 3000, "distinct_nontrivial": 60000}},
}


META["C19"] = {
    "level": "exploration",
    "rule": "pairs of tables with 1..8 rows each, null rows at random positions (arbitrary content), 1-3 key columns of any scalar type and "
            "row shapes (scalar, vector, matrix per row), renamed or equally named key headers, disjoint / partial / full key overlap, "
            "0-2 payload columns per table, column order and null-column position shuffled; 4 join types x {unmasked, masked (key and "
            "payload masks)}; compiled joins under owner classes private-private / private-public / public-private with random output "
            "lists and inline modes, executed by one evaluator and by three parties; phase compiled_dense: both tables private, 256-520 rows, the "
            "second one >= 512 (the protocol then sizes its cuckoo table at 2-4 slots per row), one scalar key column; a case is one pair of tables (and configuration); "
            "non-trivial = at least 3 rows in total (plaintext) / at least one private table (compiled); distinct by hash of (types, draw)",
    "assumptions": COMMON_ASSUMPTIONS + [
        "oracle for plaintext joins = an independent relational join written from the Graph::join / join_with_column_masks "
        "documentation (row-aligned result: inner/left results have the first table's rows, union/full the first table's rows then the "
        "second's; zero filling; null markers; masked-out key entries never match)",
        "generated tables satisfy the documented uniqueness precondition", M2_ASSUMPTION,
        "the hash-based protocol's abort (cuckoo hashing failure) is tolerated and counted",
    ],
    "floors": {"quick": {"plaintext_joins_compared": 3000, "compiled": 30, "compiled_executions": 50, "three_party_executions": 50,
                         "distinct_nontrivial": 2500},
               "thorough": {"plaintext_joins_compared": 60000, "compiled": 600, "compiled_executions": 1000, "three_party_executions": 1000,
                            "distinct_nontrivial": 50000}},
    "soft_s": {"quick": 600, "thorough": 1200},
}


META["C20"] = {
    "level": "exploration",
    "rule": "swept input arrays per operation and configuration: NewtonInversion (5 (iterations, cap) settings, signed / unsigned, with and "
            "without an initial approximation) over (0, 2^(cap-1)); InverseSqrt over (0, min(2^(2cap-1), 2^21)); GoldschmidtDivision over "
            "divisor sweeps x 9 dividends; ApproxExponent (p = 10) on x/2^p in [-9.8, 9.8]; TaylorExponent (p = 10, 12) on [-12, (31-p) ln 2) incl. "
            "both sides of every power-of-two boundary of x/ln2; ApproxSigmoid / "
            "ApproxGelu on [-12, 12] / [-8, 8] incl. every bucket boundary +-1; FixedMultiply exact on 14x14 operand pairs; thorough "
            "enumerates every grid point (stride 1), quick strides the middle of large domains but keeps both ends dense; compiled "
            "versions on 64 sampled points each; a case is one chunk of <= 4096 points; all non-trivial; distinct by (sweep, chunk)",
    "assumptions": COMMON_ASSUMPTIONS + [
        "oracle = f64 evaluation of the exact function; tolerances from config/tolerances.json (the authors' own test tolerances, fixed "
        "before the sweeps were run, with their provenance)",
        "compiled results must stay within twice that tolerance of the exact function",
    ],
    "floors": {"quick": {"points_checked": 100000, "compiled": 15, "compiled_points_checked": 900, "distinct_nontrivial": 60},
               "thorough": {"points_checked": 2000000, "compiled": 80, "compiled_points_checked": 5000, "distinct_nontrivial": 600}},
    "soft_s": {"quick": 600, "thorough": 1200},
}


def post_C03(agg, info):
    import glob, json
    import stats
    fam = stats.Family()
    n_rec = 0
    for f in sorted(glob.glob(os.path.join(info["tmpdir"], "aux", "c03_sampled_*.json"))):
        for rec in json.load(open(f)):
            n_rec += 1
            for t in rec["tests"]:
                p, st = stats.chi2_two_sample(t["a"], t["b"])
                fam.add(f"{rec['template']}|{rec['config']}|observer {rec['observer']}|scalar {t['i']}", p, st, rec)
    bad, cov = fam.decide()
    viol = []
    seen = set()
    for name, p, st, rec in bad:
        sig = "C03|view_depends_on_other_inputs|sampled|" + rec["template"]
        if sig in seen:
            continue
        seen.add(sig)
        v = _viol(sig, f"party {rec['observer']}'s view scalar distribution differs between two assignments of the other parties' "
                       f"inputs: {name} p={p:.3g} chi2={st:.1f}", info, {"config": rec["config"], "template": rec["template"]})
        v["case"] = rec["case"]
        viol.append(v)
    cov["sampled_records"] = n_rec
    cov["sampled_mode_reach"] = ("marginals of every view scalar plus pairwise and three-way sums of received-message scalars; "
                                 "says nothing about leaks of higher order")
    problems = []
    if n_rec == 0:
        problems.append("sampled mode produced no records")
    return viol, cov, problems


META["C03"] = {
    "level": "exploration",
    "rule": "exact mode: random bit circuits (2-3 one-bit inputs, 1-4 gates from AND / XOR / NOT; output = last gate or a tuple / vector / tuple getter "
            "over the last gate and other wires) x owner vectors over {0,1,2,public} x all 13 "
            "output lists, compiled and executed by three parties with the PRF idealised as a tape; every tape (<= 12 / 16 bits) is "
            "enumerated for every input assignment and, per observer, the view histograms of assignments in the same (own inputs, own "
            "output) class must be identical, repeated for 2 / 4 conditioning seeds of single-party junk randomness; sampled mode: 9 "
            "u8 / i8 templates (multiply, multiply-add, product chain, mixed multiply / OT, A2B, A2B+B2A, dot, truncation by 4, "
            "sum-then-multiply) x owner rotations x output in {one party, secret-shared} x inline modes, 3000 / 30000 sampled executions "
            "per assignment with the real PRF and fresh party seeds; a case is one (circuit or template, configuration); non-trivial = "
            "at least one pair of assignments compared; distinct by hash of (graph, configuration)",
    "assumptions": COMMON_ASSUMPTIONS + [M2_ASSUMPTION,
        "a party's view = the vector of all values it computes (own inputs, own draws, PRF answers, received messages, output)",
        "exact mode: PRF answers are independent uniform bits per distinct (key identity, counter); key-typed Random nodes return a "
        "symbolic identity (node, party); tape variables evaluated by exactly one party while the same node has a variable shared by "
        "two parties are that party's junk randomness and are fixed by a conditioning seed",
        "sampled mode: two-sample chi-square at family-wise alpha 1e-9 on marginals, pairwise and three-way sums of message scalars",
    ],
    "floors": {"quick": {"executions": 200000, "assignment_pairs_compared": 300, "tapes_enumerated": 200000, "sampled_templates": 15,
                         "sampled_executions": 80000, "distinct_nontrivial": 150},
               "thorough": {"executions": 20000000, "assignment_pairs_compared": 8000, "tapes_enumerated": 20000000, "sampled_templates": 80,
                            "sampled_executions": 4000000, "distinct_nontrivial": 3000}},
    "soft_s": {"quick": 600, "thorough": 1200},
}
PY_SERVES.append("C03")


# ---- per-property MANIFEST texts (level_claimed.text, technique) ----
_TEXTS = {
 "C01": ("Per-program translation validation by differential execution: each generated (program, owner vector, output list, inline mode) is compiled by the real pipeline and the compiled graph's result is compared bytewise with the source graph's result on several inputs and evaluator seeds. Held-on-observed only; reach is the generator's measured operation/configuration coverage.",
         "runtime monitoring: differential oracle (source vs compiled graph) over generated programs"),
 "C02": ("Each compiled graph is executed by a three-party executor (a value crosses parties only at Send-annotated nodes; each party uses its own evaluator, seed and junk for what it does not own); the monitor checks what every designated output party ends with, under several junk fillings. This observes exactly the executions no existing test produces.",
         "runtime monitoring: three-party executor with message log, outcome oracle against the source result"),
 "C03": ("Exact mode enumerates ALL random tapes of small bit-typed compiled protocols over real three-party executions and requires identical view histograms per observer and output class (exhaustive within the tape bound and the PRF idealisation); sampled mode tests marginals, pairwise and three-way sums of view scalars on multi-bit templates with chi-square at alpha 1e-9.",
         "runtime monitoring: exhaustive tape enumeration over monitored three-party executions + statistical two-sample tests on recorded views"),
 "C04": ("Invariant walker over the live graphs returned by the real pipeline (counter uniqueness after each stage), online PRF-call log of executions, and inspection of the optimizer's node mapping on generated and real inputs.",
         "runtime monitoring: invariant walker on pipeline artifacts + PRF-call log"),
 "C05": ("Every compiled truncation is executed (one evaluator with several seeds, and three separate parties) on arrays of boundary and uniform inputs of the documented range; results are checked element-wise against integer arithmetic.",
         "runtime monitoring: reference-arithmetic oracle over swept executions (single evaluator and three-party)"),
 "C06": ("Per-graph translation validation of optimize_context: outputs and every mapped node under replayed randomness, interface, send markers, three-party outputs, reload and recorded types.",
         "runtime monitoring: differential oracle (original vs optimised) with randomness replay, three-party executor, reload check"),
 "C07": ("Per-context translation validation of inline_operations against the evaluator's native Call/Iterate semantics over all strategy classes, lengths 0..40 and mode/override combinations.",
         "runtime monitoring: differential oracle (native Call/Iterate vs inlined graph)"),
 "C08": ("Totality observed directly on generated contexts and a systematic collision probe; meaning by differential evaluation against per-node on-the-fly instantiation.",
         "runtime monitoring: differential oracle (whole-context instantiation vs per-node instantiation) + totality observation"),
 "C09": ("Online type monitor on every node value of generated graphs over all primitive operations, panic capture at add_node / custom_op / evaluate, error whitelist, and offline re-derivation of node types by the NumPy model.",
         "runtime monitoring: online type/layout monitor + panic capture + offline reference model"),
 "C10": ("Recorded one-operation executions are re-computed by an independent NumPy/Python-int model of the documented semantics; bytes and types must match.",
         "runtime monitoring: offline reference-model checker over recorded execution logs"),
 "C11": ("History + sequential transition model + invariant walker at the quiescent point after every API call, on the private state exposed by a read-only hook.",
         "runtime monitoring: history checking against a sequential model, invariant hook"),
 "C12": ("Round-trip differential on contexts from every producer, panic capture and invariant walker on two-layer mutated texts.",
         "runtime monitoring: round-trip differential + fault injection into serialized text with panic capture and invariant walker"),
 "C13": ("Exhaustive / boundary sweeps of the value codec against an independent implementation of the documented layout; JSON texts re-parsed by Python.",
         "runtime monitoring: reference-model oracle (independent codec) over swept inputs, offline JSON checker"),
 "C14": ("Exact reconstruction / layout checks for every sharing API on generated typed values; histograms of a party's pair of shares over many seeds tested for uniformity and independence of the secret.",
         "runtime monitoring: reconstruction oracle + statistical tests on recorded share histograms"),
 "C15": ("Call-history monitor for PRF purity across evaluator instances, domain checks on every generated value, PRNG replay, bias statistics.",
         "runtime monitoring: call-history monitor (first answer is the model), domain checks, chi-square"),
 "C16": ("Exhaustive operand pairs for small widths (one vectorised graph each) and structured pairs for wide operands, against native integer comparison.",
         "runtime monitoring: native-arithmetic oracle over exhaustive / swept executions"),
 "C17": ("Exhaustive small widths and corner/uniform operands for adder, multiplexer, clip and long division, against native arithmetic.",
         "runtime monitoring: native-arithmetic oracle over exhaustive / swept executions"),
 "C18": ("Reference stable sort on generated tables, all permutations for n <= 5, compiled sort by one evaluator and by three parties.",
         "runtime monitoring: reference-model oracle (stable sort) + differential (compiled vs plaintext) + three-party executor"),
 "C19": ("Independent relational join written from the documentation vs plaintext Join, and compiled join vs plaintext by one evaluator and by three parties over owner classes.",
         "runtime monitoring: reference-model oracle (relational join) + differential (compiled vs plaintext) + three-party executor"),
 "C20": ("Dense / exhaustive sweeps of each approximation against f64 with the authors' own tolerances; compiled versions on sampled points.",
         "runtime monitoring: reference-function oracle over swept executions"),
}
for _k, (_t, _tech) in _TEXTS.items():
    if _k in META:
        META[_k]["level_text"] = _t + " Rule: " + META[_k]["rule"]
        META[_k]["technique"] = _tech


def _apply_floor_overrides():
    """config/floors.json holds calibrated event floors (half of what a run on the unchanged tree observes);
    written by tools/calibrate_floors.py, never at check time."""
    import json
    p = os.path.join(os.path.dirname(os.path.abspath(__file__)), "..", "config", "floors.json")
    if not os.path.exists(p):
        return
    for pid, tiers in json.load(open(p)).items():
        if pid in META:
            for tier, fl in tiers.items():
                META[pid].setdefault("floors", {})[tier] = fl


_apply_floor_overrides()
