"""Offline checker for C13: the JSON text of every typed value, parsed with Python's own json
(arbitrary-precision integers), must denote exactly the intended integers, shape and structure."""
import glob
import json
import os


def _reshape(flat, shape):
    if len(shape) == 1:
        return list(flat)
    step = len(flat) // shape[0] if shape[0] else 0
    return [_reshape(flat[i * step:(i + 1) * step], shape[1:]) for i in range(shape[0])]


def _check(node, model, path):
    k = model["k"]
    if not isinstance(node, dict) or node.get("kind") != k:
        return f"{path}: kind {node.get('kind') if isinstance(node, dict) else type(node)} != {k}"
    if k in ("scalar", "array") and model["st"] == "b" and node.get("type") == "bit":
        node = dict(node)
        node["type"] = "b"
    if k == "scalar":
        if node.get("type") != model["st"]:
            return f"{path}: type {node.get('type')} != {model['st']}"
        want = int(model["v"])
        got = node.get("value")
        if model["st"] == "b":
            want = want & 1
        if isinstance(got, bool):
            got = int(got)
        if got != want:
            return f"{path}: scalar {got} != {want}"
        return None
    if k == "array":
        if node.get("type") != model["st"]:
            return f"{path}: type {node.get('type')} != {model['st']}"
        want = [int(x) for x in model["v"]]
        if model["st"] == "b":
            want = [x & 1 for x in want]
        want = _reshape(want, model["shape"])
        got = node.get("value")
        def norm(x):
            if isinstance(x, list):
                return [norm(y) for y in x]
            return int(x) if isinstance(x, bool) else x
        if norm(got) != want:
            return f"{path}: array {str(got)[:120]} != {str(want)[:120]}"
        return None
    kids = node.get("value")
    if not isinstance(kids, list) or len(kids) != len(model["v"]):
        return f"{path}: arity {len(kids) if isinstance(kids, list) else '?'} != {len(model['v'])}"
    for i, (c, m) in enumerate(zip(kids, model["v"])):
        if k == "named tuple":
            if c.get("name") != m["name"]:
                return f"{path}[{i}]: name {c.get('name')} != {m['name']}"
            e = _check(c.get("value"), m["value"], f"{path}.{m['name']}")
        else:
            e = _check(c, m, f"{path}[{i}]")
        if e:
            return e
    return None


def check_dir(auxdir, seed, tier, nshards):
    violations = []
    n = 0
    ints = 0
    for f in sorted(glob.glob(os.path.join(auxdir, "c13_json_*.jsonl"))):
        shard = int(os.path.basename(f).split("_")[-1].split(".")[0])
        for line in open(f):
            rec = json.loads(line)
            n += 1
            try:
                parsed = json.loads(rec["json"])
            except Exception as e:  # noqa: BLE001
                err = f"python json cannot parse: {e}"
            else:
                err = _check(parsed, rec["model"], "$")
            if err and len(violations) < 5:
                violations.append({"sig": "C13|python_json_model", "case": rec["case"], "seed": seed, "tier": tier,
                                   "shard": shard, "nshards": nshards,
                                   "detail": {"what": "JSON text does not denote the intended integers: " + err,
                                              "json": rec["json"][:2000]}})
    return violations, {"json_texts_checked_by_python": n}
