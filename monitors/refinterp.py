"""M5 - NumPy reference interpreter over ciphercore's own context JSON.

Values are numpy arrays of dtype=object holding Python ints reduced mod 2^w (so all widths up to
128 bits use the same code), decoded from raw bytes by the documented layout (little-endian
integers; bit arrays packed LSB-first) independently of ciphercore's codecs. Every node's shape
and scalar type is re-derived here, so type inference is cross-checked as well.
"""
import json

import numpy as np

BITS = {"bit": 1, "u8": 8, "i8": 8, "u16": 16, "i16": 16, "u32": 32, "i32": 32, "u64": 64, "i64": 64,
        "u128": 128, "i128": 128}
SIGNED = {"i8", "i16", "i32", "i64", "i128"}


class Unsupported(Exception):
    pass


class RefError(Exception):
    """the reference semantics reject this evaluation (e.g. invalid permutation)"""


# ---------------------------------------------------------------- types
def t_kind(t):
    return next(iter(t))


def t_scalar(st):
    return {"Scalar": st}


def t_array(shape, st):
    return {"Array": [list(int(x) for x in shape), st]}


def t_st(t):
    k = t_kind(t)
    if k == "Scalar":
        return t["Scalar"]
    if k == "Array":
        return t["Array"][1]
    raise Unsupported("scalar type of container")


def t_shape(t):
    k = t_kind(t)
    if k == "Scalar":
        return ()
    if k == "Array":
        return tuple(t["Array"][0])
    raise Unsupported("shape of container")


def is_arr(t):
    return t_kind(t) in ("Scalar", "Array")


def mk_t(shape, st):
    return t_scalar(st) if len(shape) == 0 else t_array(shape, st)


def type_eq(a, b):
    return json.dumps(a, sort_keys=True) == json.dumps(b, sort_keys=True)


def _children(t):
    k = t_kind(t)
    if k == "Tuple":
        return t["Tuple"]
    if k == "NamedTuple":
        return [x[1] for x in t["NamedTuple"]]
    return [t["Vector"][1]] * t["Vector"][0]


def _leaves(v, t):
    if is_arr(t):
        yield v, t
        return
    for x, tt in zip(v, _children(t)):
        yield from _leaves(x, tt)


def _rebuild(it, t):
    if is_arr(t):
        nxt = next(it, None)
        if nxt is None:
            raise ValueError("reshape: fewer leaves in the argument than in the target type")
        v, tv = nxt
        if t_st(tv) != t_st(t):
            raise ValueError(f"reshape: leaf scalar type {t_st(tv)} -> {t_st(t)}")
        n_src = int(np.prod(t_shape(tv), dtype=object)) if len(t_shape(tv)) else 1
        n_dst = int(np.prod(t_shape(t), dtype=object)) if len(t_shape(t)) else 1
        if n_src != n_dst:
            raise ValueError(f"reshape: leaf with {n_src} elements -> {n_dst}")
        r = np.reshape(np.asarray(v, dtype=object), t_shape(t))
        return obj(r)
    return [_rebuild(it, tt) for tt in _children(t)]


# ---------------------------------------------------------------- codec
def decode_arr(hexs, t):
    st = t_st(t)
    shape = t_shape(t)
    n = int(np.prod(shape, dtype=object)) if len(shape) else 1
    raw = bytes.fromhex(hexs)
    w = BITS[st]
    if w == 1:
        if len(raw) != (n + 7) // 8:
            raise ValueError(f"byte length {len(raw)} for {n} bits")
        vals = [(raw[i // 8] >> (i % 8)) & 1 for i in range(n)]
    else:
        nb = w // 8
        if len(raw) != n * nb:
            raise ValueError(f"byte length {len(raw)} for {n} x {nb}")
        vals = [int.from_bytes(raw[i * nb:(i + 1) * nb], "little") for i in range(n)]
    a = np.empty(n, dtype=object)
    for i, v in enumerate(vals):
        a[i] = v
    return a.reshape(shape)


def encode_arr(a, st):
    w = BITS[st]
    flat = [int(x) for x in np.asarray(a, dtype=object).reshape(-1)] if isinstance(a, np.ndarray) else [int(a)]
    if w == 1:
        out = bytearray((len(flat) + 7) // 8)
        for i, v in enumerate(flat):
            if v & 1:
                out[i // 8] |= 1 << (i % 8)
        return bytes(out).hex()
    nb = w // 8
    return b"".join((v % (1 << w)).to_bytes(nb, "little") for v in flat).hex()


def decode(j, t):
    k = t_kind(t)
    if k in ("Scalar", "Array"):
        if not isinstance(j, str):
            raise ValueError("expected bytes")
        return decode_arr(j, t)
    if not isinstance(j, list):
        raise ValueError("expected vector")
    if k == "Tuple":
        ts = t["Tuple"]
    elif k == "NamedTuple":
        ts = [x[1] for x in t["NamedTuple"]]
    else:
        ts = [t["Vector"][1]] * t["Vector"][0]
    if len(ts) != len(j):
        raise ValueError("arity")
    return [decode(x, tt) for x, tt in zip(j, ts)]


def encode(v, t):
    k = t_kind(t)
    if k in ("Scalar", "Array"):
        return encode_arr(v, t_st(t))
    if k == "Tuple":
        ts = t["Tuple"]
    elif k == "NamedTuple":
        ts = [x[1] for x in t["NamedTuple"]]
    else:
        ts = [t["Vector"][1]] * t["Vector"][0]
    return [encode(x, tt) for x, tt in zip(v, ts)]


def red(a, st):
    w = BITS[st]
    m = (1 << w)
    if isinstance(a, np.ndarray):
        out = np.empty(a.shape, dtype=object)
        flat = out.reshape(-1)
        src = a.reshape(-1)
        for i in range(src.size):
            flat[i] = int(src[i]) % m
        return out
    return int(a) % m


def to_signed(x, st):
    w = BITS[st]
    x = int(x) % (1 << w)
    if st in SIGNED and x >= (1 << (w - 1)):
        return x - (1 << w)
    return x


def obj(a, shape=None):
    out = np.empty(np.shape(a) if shape is None else shape, dtype=object)
    if out.size:
        out[...] = a
    return out


# ---------------------------------------------------------------- slicing helpers
def np_slice(sl):
    out = []
    for e in sl:
        if e == "Ellipsis":
            out.append(Ellipsis)
        elif "SingleIndex" in e:
            out.append(int(e["SingleIndex"]))
        else:
            a, b, c = e["SubArray"]
            out.append(slice(a, b, c))
    return tuple(out)


# ---------------------------------------------------------------- operations
def op_name(op):
    return op if isinstance(op, str) else next(iter(op))


def op_param(op):
    return None if isinstance(op, str) else op[next(iter(op))]


def eval_op(op, args, arg_types):
    """returns (value, type)"""
    name = op_name(op)
    p = op_param(op)
    if name in ("Add", "Subtract", "Multiply"):
        (a, b), (ta, tb) = args, arg_types
        st = t_st(ta)
        if t_st(tb) != st:
            raise Unsupported("mixed scalar types")
        if name == "Add":
            r = a + b
        elif name == "Subtract":
            r = a - b
        else:
            r = a * b
        r = obj(r) if not isinstance(r, np.ndarray) else r
        r = red(r, st)
        return r, mk_t(np.shape(r), st)
    if name == "MixedMultiply":
        (a, b), (ta, tb) = args, arg_types
        st = t_st(ta)
        r = a * b
        r = obj(r) if not isinstance(r, np.ndarray) else r
        r = red(r, st)
        return r, mk_t(np.shape(r), st)
    if name == "Dot":
        (a, b), (ta, tb) = args, arg_types
        st = t_st(ta)
        r = np.dot(a, b)
        r = obj(r) if not isinstance(r, np.ndarray) else r
        return red(r, st), mk_t(np.shape(r), st)
    if name == "Matmul":
        (a, b), (ta, tb) = args, arg_types
        st = t_st(ta)
        r = np.matmul(a, b)
        r = obj(r) if not isinstance(r, np.ndarray) else r
        return red(r, st), mk_t(np.shape(r), st)
    if name == "Gemm":
        (a, b), (ta, tb) = args, arg_types
        st = t_st(ta)
        if p[0]:
            a = np.swapaxes(a, -1, -2)
        if p[1]:
            b = np.swapaxes(b, -1, -2)
        r = np.matmul(a, b)
        r = obj(r) if not isinstance(r, np.ndarray) else r
        return red(r, st), mk_t(np.shape(r), st)
    if name == "Truncate":
        (a,), (ta,) = args, arg_types
        st = t_st(ta)
        scale = int(p)
        out = np.empty(np.shape(a), dtype=object)
        fo, fi = out.reshape(-1), np.asarray(a, dtype=object).reshape(-1)
        for i in range(fi.size):
            x = to_signed(fi[i], st)
            if x >= 0:
                q = x // scale
            else:
                q = -((-x) // scale)  # round toward zero for signed values
            fo[i] = q % (1 << BITS[st])
        return out, ta
    if name == "Sum":
        (a,), (ta,) = args, arg_types
        st = t_st(ta)
        axes = tuple(int(x) for x in p)
        r = np.sum(a, axis=axes) if len(axes) else a
        r = obj(r) if not isinstance(r, np.ndarray) else r
        return red(r, st), mk_t(np.shape(r), st)
    if name == "CumSum":
        (a,), (ta,) = args, arg_types
        st = t_st(ta)
        r = np.cumsum(a, axis=int(p))
        return red(r, st), mk_t(np.shape(r), st)
    if name == "PermuteAxes":
        (a,), (ta,) = args, arg_types
        r = np.transpose(a, tuple(int(x) for x in p))
        return obj(r), mk_t(np.shape(r), t_st(ta))
    if name == "Get":
        (a,), (ta,) = args, arg_types
        r = a[tuple(int(x) for x in p)]
        r = obj(r) if not isinstance(r, np.ndarray) else r
        return r, mk_t(np.shape(r), t_st(ta))
    if name == "GetSlice":
        (a,), (ta,) = args, arg_types
        r = a[np_slice(p)]
        r = obj(r) if not isinstance(r, np.ndarray) else r
        return r, mk_t(np.shape(r), t_st(ta))
    if name == "Reshape":
        # documented: the flattened sequences of leaves (scalars / arrays) of both types must pair
        # up with equal scalar type and equal number of elements; every leaf is reshaped on its own
        (a,), (ta,) = args, arg_types
        src = list(_leaves(a, ta))
        it = iter(src)
        r = _rebuild(it, p)
        if next(it, None) is not None:
            raise ValueError("reshape: more leaves in the argument than in the target type")
        return r, p
    if name == "NOP":
        return args[0], arg_types[0]
    if name == "Stack":
        st = t_st(arg_types[0])
        arrs = np.broadcast_arrays(*[np.asarray(a, dtype=object) for a in args])
        inner = arrs[0].shape
        outer = tuple(int(x) for x in p)
        r = np.stack([obj(x) for x in arrs]).reshape(outer + inner)
        return obj(r), mk_t(np.shape(r), st)
    if name == "Concatenate":
        st = t_st(arg_types[0])
        r = np.concatenate(args, axis=int(p))
        return obj(r), mk_t(np.shape(r), st)
    if name == "Constant":
        t, v = p
        raise Unsupported("constant payload is decoded by the caller")
    if name in ("Zeros", "Ones"):
        return const_of(p, 0 if name == "Zeros" else 1), p
    if name == "A2B":
        (a,), (ta,) = args, arg_types
        st = t_st(ta)
        w = BITS[st]
        shape = np.shape(a) + (w,)
        out = np.empty(shape, dtype=object)
        fo = out.reshape(-1, w) if out.size else out
        fi = np.asarray(a, dtype=object).reshape(-1)
        for i in range(fi.size):
            for j in range(w):
                fo[i, j] = (int(fi[i]) >> j) & 1
        return out, t_array(shape, "bit")
    if name == "B2A":
        (a,), (ta,) = args, arg_types
        st = p
        w = BITS[st]
        shape = np.shape(a)
        if len(shape) == 0 or shape[-1] != w:
            raise RefError("B2A needs the last dimension to equal the width")
        out = np.empty(shape[:-1], dtype=object)
        fi = a.reshape(-1, w)
        fo = out.reshape(-1)
        for i in range(fi.shape[0]):
            fo[i] = sum(int(fi[i, j]) << j for j in range(w))
        return out, mk_t(shape[:-1], st)
    if name == "CreateTuple":
        return list(args), {"Tuple": list(arg_types)}
    if name == "CreateNamedTuple":
        return list(args), {"NamedTuple": [[n, t] for n, t in zip(p, arg_types)]}
    if name == "CreateVector":
        return list(args), {"Vector": [len(args), p]}
    if name == "TupleGet":
        t = arg_types[0]
        ts = t["Tuple"] if "Tuple" in t else [x[1] for x in t["NamedTuple"]]
        return args[0][int(p)], ts[int(p)]
    if name == "NamedTupleGet":
        t = arg_types[0]
        names = [x[0] for x in t["NamedTuple"]]
        i = names.index(p)
        return args[0][i], t["NamedTuple"][i][1]
    if name == "VectorGet":
        t = arg_types[0]
        idx = int(np.asarray(args[1], dtype=object).reshape(-1)[0])
        if idx >= t["Vector"][0]:
            raise RefError("index out of range")
        return args[0][idx], t["Vector"][1]
    if name == "Zip":
        n = arg_types[0]["Vector"][0]
        ets = [t["Vector"][1] for t in arg_types]
        return [[a[i] for a in args] for i in range(n)], {"Vector": [n, {"Tuple": ets}]}
    if name == "Repeat":
        return [args[0]] * int(p), {"Vector": [int(p), arg_types[0]]}
    if name == "ArrayToVector":
        (a,), (ta,) = args, arg_types
        st = t_st(ta)
        shape = np.shape(a)
        return [obj(a[i]) if isinstance(a[i], np.ndarray) else obj(a[i], ()) for i in range(shape[0])], \
            {"Vector": [shape[0], mk_t(shape[1:], st)]}
    if name == "VectorToArray":
        t = arg_types[0]
        n, et = t["Vector"]
        st = t_st(et)
        r = np.stack([np.asarray(x, dtype=object) for x in args[0]])
        return obj(r), mk_t(np.shape(r), st)
    if name == "Gather":
        (a, idx), (ta, ti) = args, arg_types
        ii = np.asarray(idx, dtype=object).astype(np.int64)
        axis = int(p)
        if ii.size and (ii.max() >= np.shape(a)[axis]):
            raise RefError("index out of range")
        r = np.take(a, ii, axis=axis)
        return obj(r), mk_t(np.shape(r), t_st(ta))
    if name == "InversePermutation":
        (a,), (ta,) = args, arg_types
        n = np.shape(a)[0]
        vals = [int(x) for x in a]
        if sorted(vals) != list(range(n)):
            raise RefError("not a permutation")
        out = np.empty(n, dtype=object)
        for i, v in enumerate(vals):
            out[v] = i
        return out, ta
    if name == "ApplyPermutation":
        (a, perm), (ta, tp) = args, arg_types
        n = np.shape(a)[0]
        vals = [int(x) for x in perm]
        if sorted(vals) != list(range(n)):
            raise RefError("not a permutation")
        if p:  # inverse
            inv = [0] * n
            for i, v in enumerate(vals):
                inv[v] = i
            vals = inv
        r = np.take(a, np.array(vals, dtype=np.int64), axis=0)
        return obj(r), ta
    raise Unsupported(name)


def const_of(t, x):
    k = t_kind(t)
    if k in ("Scalar", "Array"):
        a = np.empty(t_shape(t), dtype=object)
        if a.size:
            a[...] = x
        else:
            a = obj(x, t_shape(t))
        return a
    if k == "Tuple":
        return [const_of(tt, x) for tt in t["Tuple"]]
    if k == "NamedTuple":
        return [const_of(tt[1], x) for tt in t["NamedTuple"]]
    return [const_of(t["Vector"][1], x) for _ in range(t["Vector"][0])]


def values_equal(a, b):
    if isinstance(a, list) or isinstance(b, list):
        if not (isinstance(a, list) and isinstance(b, list)) or len(a) != len(b):
            return False
        return all(values_equal(x, y) for x, y in zip(a, b))
    return a == b


def eval_graph(nodes, node_types, inputs, constants):
    """nodes: list of {node_dependencies, operation}; node_types: ciphercore's inferred types (serde form);
    inputs: decoded input values in order; constants: {node index: decoded value}.
    Returns (values, derived_types, type_mismatches)"""
    vals = []
    types = []
    mism = []
    k = 0
    for i, n in enumerate(nodes):
        op = n["operation"]
        name = op_name(op)
        if name == "Input":
            v, t = inputs[k], op["Input"]
            k += 1
        elif name == "Constant":
            v, t = constants[i], op["Constant"][0]
        else:
            deps = n["node_dependencies"]
            v, t = eval_op(op, [vals[d] for d in deps], [types[d] for d in deps])
        vals.append(v)
        types.append(t)
        if node_types is not None and not type_eq(t, node_types[i]):
            mism.append((i, name, t, node_types[i]))
    return vals, types, mism
