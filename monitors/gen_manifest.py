#!/usr/bin/env python3
"""Regenerates /verif/MANIFEST.json from monitors/propmeta.py (run after editing META)."""
import json, os, sys
sys.path.insert(0, os.path.dirname(os.path.abspath(__file__)))
import propmeta

VERIF = os.path.dirname(os.path.dirname(os.path.abspath(__file__)))
ALL = ["C%02d" % i for i in range(1, 21)]
checks = []
for pid in ALL:
    m = propmeta.META.get(pid)
    if not m or m.get("unclaimed"):
        continue
    checks.append({
        "property_id": pid,
        "quick_cmd": f"./check {pid} --tier quick",
        "thorough_cmd": f"./check {pid} --tier thorough",
        "evidence_file": f"/verif/evidence/{pid}.json",
        "replay_cmd_template": f"./check {pid} --replay {{path}}",
        "engine": "vx",
        "level_claimed": {"category": m["level"], "text": m.get("level_text", m["rule"]),
                          "design_ref": m.get("design_ref", f"DESIGN.md section 4, {pid}")},
        "level_note": m.get("level_note", "; ".join(m["assumptions"])),
        "technique": m.get("technique", "runtime monitoring: differential oracle over generated workloads"),
    })
na = []
for pid in ALL:
    m = propmeta.META.get(pid)
    if not m:
        na.append({"property_id": pid, "reason": propmeta.NOT_CLAIMED.get(pid, "check not built yet in this session; design in DESIGN.md section 4")})
    elif m.get("unclaimed"):
        na.append({"property_id": pid, "reason": m["unclaimed"]})
manifest = {
    "version": 1,
    "setup_cmd": "cd /verif && ./setup.sh",
    "hooks": {
        "guard": "verif-hooks",
        "enable": "cargo feature `verif-hooks` of ciphercore-base, switched on by the harness crate's default feature `hooks` (cargo build --release in /verif/harness)",
        "baseline_off_cmd": "cd /repo && cargo test --workspace --no-fail-fast --offline",
        "source_commits": propmeta.HOOK_COMMITS,
        "add_only": True,
    },
    "engines": [
        {"name": "vx", "path": "/verif/harness", "serves_properties": [c["property_id"] for c in checks],
         "kind_free_text": "Rust harness linking the real ciphercore-base: typed program generators, observing evaluator, three-party executor, reference oracles; run as sharded processes by /verif/check"},
        {"name": "pymon", "path": "/verif/monitors", "serves_properties": propmeta.PY_SERVES,
         "kind_free_text": "Python monitors (python3-vt): NumPy reference interpreter, statistics, aggregation"},
    ],
    "checks": checks,
    "notes": "Family: runtime monitoring. ./check <ID> rebuilds the harness from /repo's working tree, runs sharded workloads, applies known_findings.json and writes evidence/<ID>.json. Exit 2 = inconclusive (never folded into pass or violation).",
    "not_applicable": na,
}
json.dump(manifest, open(os.path.join(VERIF, "MANIFEST.json"), "w"), indent=1)
print("checks:", [c["property_id"] for c in checks], "unclaimed:", [n["property_id"] for n in na])
