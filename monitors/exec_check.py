"""Offline checker over recorded executions (C10 one-operation graphs, C09 multi-operation graphs):
re-computes every recorded execution with the NumPy reference interpreter and compares the output
bytes and every node's inferred type."""
import glob
import json
import multiprocessing as mp
import os

import refinterp as R


def st_class(types):
    sts = set()
    def walk(t):
        k = R.t_kind(t)
        if k in ("Scalar", "Array"):
            sts.add(R.t_st(t))
        elif k == "Tuple":
            for x in t["Tuple"]:
                walk(x)
        elif k == "NamedTuple":
            for x in t["NamedTuple"]:
                walk(x[1])
        else:
            walk(t["Vector"][1])
    for t in types:
        walk(t)
    if sts & {"u128", "i128"}:
        return "128-bit"
    if sts == {"bit"}:
        return "bit"
    return "<=64-bit"


def check_file(args):
    path, prop = args
    shard = int(os.path.basename(path).rsplit("_", 1)[1].split(".")[0])
    out = {"records": 0, "compared": 0, "unsupported": {}, "ref_rejected": 0, "both_rejected": 0,
           "node_types_checked": 0, "violations": [], "shard": shard, "ops": {}}
    seen = set()
    def viol(sig, case, what, extra=None):
        if sig in seen:
            return
        seen.add(sig)
        d = {"what": what}
        if extra:
            d.update(extra)
        out["violations"].append({"sig": sig, "case": case, "detail": d, "shard": shard})
    for line in open(path):
        rec = json.loads(line)
        out["records"] += 1
        try:
            inner = json.loads(json.loads(rec["context"])["data"])
            g = inner["graphs"][inner["main_graph"]]
            nodes = g["nodes"]
            out_id = g["output_node"]
            in_types = [n["operation"]["Input"] for n in nodes if R.op_name(n["operation"]) == "Input"]
            inputs = [R.decode(j, t) for j, t in zip(rec["inputs"], in_types)]
            consts = {}
            for k, j in rec["constants"].items():
                t = nodes[int(k)]["operation"]["Constant"][0]
                consts[int(k)] = R.decode(j, t)
        except Exception as e:  # noqa: BLE001
            viol(f"{prop}|record_unreadable", rec.get("case"), f"cannot decode recorded execution: {e!r}")
            continue
        main_ops = [R.op_name(n["operation"]) for n in nodes if R.op_name(n["operation"]) not in ("Input", "Constant")]
        label = rec.get("label") or "+".join(sorted(set(main_ops)))
        cls = st_class(rec["node_types"])
        status = rec["status"]
        try:
            vals, types, mism = R.eval_graph(nodes, rec["node_types"], inputs, consts)
        except R.Unsupported as e:
            out["unsupported"][str(e)] = out["unsupported"].get(str(e), 0) + 1
            continue
        except R.RefError:
            out["ref_rejected"] += 1
            if status == "ok":
                # ciphercore produced a value where the reference semantics reject: only counted
                pass
            else:
                out["both_rejected"] += 1
            continue
        except Exception as e:  # noqa: BLE001
            # numpy itself rejects (shape mismatch): ciphercore accepted an operand combination
            # that NumPy semantics do not allow
            if status == "ok":
                viol(f"{prop}|numpy_rejects|{label}", rec["case"],
                     f"NumPy semantics reject a combination ciphercore evaluates: {e!r}",
                     {"node_types": rec["node_types"][-3:]})
            continue
        out["node_types_checked"] += len(types)
        for op in main_ops:
            out["ops"][op] = out["ops"].get(op, 0) + 1
        if mism:
            i, name, mine, theirs = mism[0]
            viol(f"{prop}|type_mismatch|{name}", rec["case"],
                 f"node {i} ({name}): inferred type {json.dumps(theirs)} but NumPy semantics give {json.dumps(mine)}")
            continue
        if status.startswith("panic"):
            viol(f"{prop}|panic|{label}|{status.rsplit('@', 1)[-1].strip()}", rec["case"],
                 f"evaluation panicked on admissible arguments: {status}")
            continue
        if status.startswith("error"):
            viol(f"{prop}|eval_error|{label}|{cls}", rec["case"],
                 f"evaluation fails on arguments the reference semantics accept: {status}")
            continue
        out["compared"] += 1
        want = R.encode(vals[out_id], types[out_id])
        if want != rec["output"]:
            culprit = label if len(main_ops) <= 2 else "graph"
            viol(f"{prop}|value_mismatch|{culprit}|{cls}", rec["case"],
                 "output differs from the NumPy reference",
                 {"ops": main_ops[:12], "types": [json.dumps(t) for t in rec["node_types"][-3:]],
                  "got": json.dumps(rec["output"])[:600], "want": json.dumps(want)[:600],
                  "inputs": json.dumps(rec["inputs"])[:600]})
    return out


def check_dir(auxdir, prefix, prop, seed, tier, nshards):
    files = sorted(glob.glob(os.path.join(auxdir, prefix + "_*.jsonl")))
    with mp.Pool(min(16, max(1, len(files)))) as pool:
        results = pool.map(check_file, [(f, prop) for f in files])
    cov = {"records_checked_by_numpy_model": 0, "outputs_compared": 0, "node_types_cross_checked": 0,
           "reference_rejections": 0, "unsupported_by_model": {}, "operations_compared": {}}
    violations = []
    seen = set()
    for r in results:
        cov["records_checked_by_numpy_model"] += r["records"]
        cov["outputs_compared"] += r["compared"]
        cov["node_types_cross_checked"] += r["node_types_checked"]
        cov["reference_rejections"] += r["ref_rejected"]
        for k, v in r["unsupported"].items():
            cov["unsupported_by_model"][k] = cov["unsupported_by_model"].get(k, 0) + v
        for k, v in r["ops"].items():
            cov["operations_compared"][k] = cov["operations_compared"].get(k, 0) + v
        for v in r["violations"]:
            if v["sig"] in seen:
                continue
            seen.add(v["sig"])
            violations.append({"sig": v["sig"], "case": v["case"], "seed": seed, "tier": tier, "shard": v["shard"],
                               "nshards": nshards, "detail": v["detail"]})
    return violations, cov
