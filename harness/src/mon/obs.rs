//! M1 — observing evaluator. `Evaluator` is a public trait whose provided methods dispatch on
//! `self`, so a wrapper that implements `evaluate_node` sees every node of every (nested) graph
//! evaluated through `evaluate_graph` / `evaluate_call_iterate`.

use crate::val::{layout_check, type_str};
use ciphercore_base::custom_ops::run_instantiation_pass;
use ciphercore_base::data_values::Value;
use ciphercore_base::errors::Result;
use ciphercore_base::evaluators::simple_evaluator::SimpleEvaluator;
use ciphercore_base::evaluators::Evaluator;
use ciphercore_base::graphs::{create_context, Node, Operation};
use std::collections::HashMap;

#[derive(Clone, Debug)]
pub struct PrfCall {
    pub node: (u64, u64),
    pub key: Vec<u8>,
    pub iv: u64,
    pub ty: String,
    pub is_perm: bool,
    pub out: Value,
}

pub struct Obs {
    pub inner: SimpleEvaluator,
    /// check every node value against its inferred type
    pub type_monitor: bool,
    pub type_errors: Vec<String>,
    pub stray_bits: u64,
    /// operations that produced a bit array with non-zero padding bits
    pub stray_ops: Vec<String>,
    pub nodes_seen: u64,
    pub values_checked: u64,
    /// record the (last) value of every node, keyed by (graph id, node id)
    pub keep_values: bool,
    pub values: HashMap<(u64, u64), Value>,
    /// randomness replay: answers for Random / RandomPermutation nodes by a caller-defined
    /// identity; when the identity is absent from the tape the node is evaluated normally and the
    /// answer stored under the identity (if any)
    pub tape: HashMap<(u64, u64), Value>,
    pub identity: Option<Box<dyn Fn(&Node) -> Option<(u64, u64)>>>,
    pub random_nodes_seen: u64,
    pub tape_hits: u64,
    /// values drawn by Random nodes (canonical bytes), per evaluation order
    pub random_draws: Vec<((u64, u64), Value)>,
    pub log_prf: bool,
    pub prf_calls: Vec<PrfCall>,
    /// evaluate Custom nodes through a fresh single-operation instantiation
    pub custom_on_the_fly: bool,
    pub custom_evals: u64,
    pub seed_counter: u64,
    pub ops_seen: HashMap<String, u64>,
    pub count_ops: bool,
    /// remember the operation of the node being evaluated (to attribute errors and panics)
    pub track_last: bool,
    pub last_op: String,
}

impl Obs {
    pub fn new(seed: [u8; 16]) -> Obs {
        Obs {
            inner: SimpleEvaluator::new(Some(seed)).unwrap(),
            type_monitor: false,
            type_errors: vec![],
            stray_bits: 0,
            stray_ops: vec![],
            nodes_seen: 0,
            values_checked: 0,
            keep_values: false,
            values: HashMap::new(),
            tape: HashMap::new(),
            identity: None,
            random_nodes_seen: 0,
            tape_hits: 0,
            random_draws: vec![],
            log_prf: false,
            prf_calls: vec![],
            custom_on_the_fly: false,
            custom_evals: 0,
            seed_counter: u64::from_le_bytes(seed[..8].try_into().unwrap()),
            ops_seen: HashMap::new(),
            count_ops: false,
            track_last: false,
            last_op: String::new(),
        }
    }

    fn eval_custom(&mut self, node: &Node, deps: Vec<Value>) -> Result<Value> {
        // reference semantics of a custom operation: instantiate it alone, for the argument
        // types at hand, in a fresh context (what the library's own unit tests do)
        let op = match node.get_operation() {
            Operation::Custom(c) => c,
            _ => unreachable!(),
        };
        let c = create_context()?;
        let g = c.create_graph()?;
        let mut ins = vec![];
        for d in node.get_node_dependencies() {
            ins.push(g.input(d.get_type()?)?);
        }
        let o = g.custom_op(op, ins)?;
        o.set_as_output()?;
        g.finalize()?;
        g.set_as_main()?;
        c.finalize()?;
        let inst = run_instantiation_pass(c)?.get_context();
        self.custom_evals += 1;
        self.seed_counter = self.seed_counter.wrapping_add(0x9E3779B97F4A7C15);
        let mut seed = [0u8; 16];
        seed[..8].copy_from_slice(&self.seed_counter.to_le_bytes());
        let mut ev = SimpleEvaluator::new(Some(seed))?;
        ev.preprocess(&inst)?;
        ev.evaluate_context(inst, deps)
    }
}

impl Evaluator for Obs {
    fn evaluate_node(&mut self, node: Node, deps: Vec<Value>) -> Result<Value> {
        self.nodes_seen += 1;
        let op = node.get_operation();
        if self.track_last {
            self.last_op = format!("{}", op);
        }
        if self.count_ops {
            *self.ops_seen.entry(format!("{}", op)).or_insert(0) += 1;
        }
        let gid = node.get_global_id();
        let is_random = matches!(op, Operation::Random(_) | Operation::RandomPermutation(_));
        let res: Value = if is_random {
            self.random_nodes_seen += 1;
            let ident = match &self.identity {
                Some(f) => f(&node),
                None => None,
            };
            let v = match ident {
                Some(id) => {
                    if let Some(v) = self.tape.get(&id) {
                        self.tape_hits += 1;
                        v.clone()
                    } else {
                        let v = self.inner.evaluate_node(node.clone(), deps)?;
                        self.tape.insert(id, v.clone());
                        v
                    }
                }
                None => self.inner.evaluate_node(node.clone(), deps)?,
            };
            self.random_draws.push((gid, v.clone()));
            v
        } else if matches!(op, Operation::Custom(_)) && self.custom_on_the_fly {
            self.eval_custom(&node, deps)?
        } else if self.log_prf && op.is_prf_operation() {
            let key = deps[0].access_bytes(|b| Ok(b.to_vec()))?;
            let out = self.inner.evaluate_node(node.clone(), deps)?;
            let (iv, ty, is_perm) = match &op {
                Operation::PRF(iv, t) => (*iv, type_str(t), false),
                Operation::PermutationFromPRF(iv, n) => (*iv, format!("perm{}", n), true),
                _ => unreachable!(),
            };
            self.prf_calls.push(PrfCall {
                node: gid,
                key,
                iv,
                ty,
                is_perm,
                out: out.clone(),
            });
            out
        } else {
            self.inner.evaluate_node(node.clone(), deps)?
        };
        if self.type_monitor {
            self.values_checked += 1;
            let t = node.get_type()?;
            match res.check_type(t.clone()) {
                Ok(true) => {}
                Ok(false) => self.type_errors.push(format!(
                    "check_type false: op {} type {}",
                    op,
                    type_str(&t)
                )),
                Err(e) => self
                    .type_errors
                    .push(format!("check_type error: op {} : {}", op, e)),
            }
            match layout_check(&res, &t) {
                Ok(s) => {
                    self.stray_bits += s;
                    if s > 0 && self.stray_ops.len() < 4 {
                        self.stray_ops.push(format!("{}", op));
                    }
                }
                Err(e) => self.type_errors.push(format!("layout: op {} : {}", op, e)),
            }
        }
        if self.keep_values {
            self.values.insert(gid, res.clone());
        }
        Ok(res)
    }
}
