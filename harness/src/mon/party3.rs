//! M2 — three-party executor. Runs an inlined compiled main graph as three separate parties:
//! each party evaluates every node with the real `SimpleEvaluator::evaluate_node` on its OWN
//! dependency values; a value crosses parties only where a node carries `Send(s, r)`.
//!
//! A party that fails (Err or panic) while evaluating a node — which legitimately happens when it
//! computes on junk, e.g. applying a junk "permutation" — continues with fresh junk of the node's
//! type: whatever it derives from that is junk again, and the verdict only looks at what the
//! designated output parties end with.

use crate::ctx::guard;
use crate::rng::Rng;
use crate::val::{rand_value, Fill};
use ciphercore_base::data_values::Value;
use ciphercore_base::errors::Result as CResult;
use ciphercore_base::evaluators::simple_evaluator::SimpleEvaluator;
use ciphercore_base::evaluators::Evaluator;
use ciphercore_base::graphs::{Graph, Node, NodeAnnotation, Operation};

pub trait PartyHook {
    /// Return Some(..) to answer the node for this party instead of the real evaluator.
    fn eval(&mut self, party: usize, node: &Node, deps: &[Value]) -> Option<CResult<Value>>;
}

pub struct NoHook;
impl PartyHook for NoHook {
    fn eval(&mut self, _p: usize, _n: &Node, _d: &[Value]) -> Option<CResult<Value>> {
        None
    }
}

#[derive(Clone, Debug)]
pub struct Msg {
    pub node: u64,
    pub from: usize,
    pub to: usize,
    pub value: Value,
}

pub struct Run3 {
    /// vals[node][party]
    pub vals: Vec<[Value; 3]>,
    pub msgs: Vec<Msg>,
    pub out_id: usize,
    pub party_errors: [u64; 3],
    pub party_panics: [u64; 3],
    pub first_error: [Option<String>; 3],
    pub nodes: usize,
}

impl Run3 {
    pub fn output(&self, p: usize) -> Value {
        self.vals[self.out_id][p].clone()
    }
    pub fn edge_counts(&self) -> [[u64; 3]; 3] {
        let mut c = [[0u64; 3]; 3];
        for m in self.msgs.iter() {
            c[m.from][m.to] += 1;
        }
        c
    }
}

/// `inputs[p][k]` = what party p supplies for the k-th Input node of the graph.
pub fn run3(
    graph: &Graph,
    inputs: &[Vec<Value>; 3],
    seeds: [[u8; 16]; 3],
    junk_seed: u64,
    hook: &mut dyn PartyHook,
) -> std::result::Result<Run3, String> {
    let nodes = graph.get_nodes();
    let mut junk_rng = Rng::new(junk_seed);
    let mut evals: Vec<SimpleEvaluator> = vec![];
    for s in seeds.iter() {
        evals.push(SimpleEvaluator::new(Some(*s)).map_err(|e| format!("{}", e))?);
    }
    let out_id = graph
        .get_output_node()
        .map_err(|e| format!("{}", e))?
        .get_id() as usize;
    let mut vals: Vec<[Value; 3]> = Vec::with_capacity(nodes.len());
    let mut msgs = vec![];
    let mut party_errors = [0u64; 3];
    let mut party_panics = [0u64; 3];
    let mut first_error: [Option<String>; 3] = [None, None, None];
    let mut input_idx = 0usize;
    for node in nodes.iter() {
        let op = node.get_operation();
        let mut cur: Vec<Value> = Vec::with_capacity(3);
        match op {
            Operation::Input(_) => {
                for p in 0..3 {
                    if input_idx >= inputs[p].len() {
                        return Err("too few inputs".to_string());
                    }
                    cur.push(inputs[p][input_idx].clone());
                }
                input_idx += 1;
            }
            Operation::Call | Operation::Iterate => {
                return Err("graph is not fully inlined".to_string());
            }
            _ => {
                let deps = node.get_node_dependencies();
                for p in 0..3 {
                    let dv: Vec<Value> = deps
                        .iter()
                        .map(|d| vals[d.get_id() as usize][p].clone())
                        .collect();
                    let ev = &mut evals[p];
                    let r = guard(|| match hook.eval(p, node, &dv) {
                        Some(r) => r,
                        None => ev.evaluate_node(node.clone(), dv),
                    });
                    let v = match r {
                        Ok(Ok(v)) => v,
                        Ok(Err(e)) => {
                            party_errors[p] += 1;
                            if first_error[p].is_none() {
                                let msg = format!("{}", e);
                                first_error[p] = Some(format!(
                                    "node {} {}: {}",
                                    node.get_id(),
                                    op,
                                    msg.lines().next().unwrap_or("")
                                ));
                            }
                            let t = node.get_type().map_err(|e| format!("{}", e))?;
                            rand_value(&mut junk_rng, &t, Fill::Uniform)
                        }
                        Err(pi) => {
                            party_panics[p] += 1;
                            if first_error[p].is_none() {
                                first_error[p] = Some(format!(
                                    "node {} {}: PANIC {} @ {}",
                                    node.get_id(),
                                    op,
                                    pi.message,
                                    pi.site
                                ));
                            }
                            let t = node.get_type().map_err(|e| format!("{}", e))?;
                            rand_value(&mut junk_rng, &t, Fill::Uniform)
                        }
                    };
                    cur.push(v);
                }
            }
        }
        let annos = node.get_annotations().map_err(|e| format!("{}", e))?;
        for a in annos {
            if let NodeAnnotation::Send(s, r) = a {
                let (s, r) = (s as usize, r as usize);
                if s < 3 && r < 3 {
                    let v = cur[s].clone();
                    msgs.push(Msg {
                        node: node.get_id(),
                        from: s,
                        to: r,
                        value: v.clone(),
                    });
                    cur[r] = v;
                }
            }
        }
        let c2 = cur.pop().unwrap();
        let c1 = cur.pop().unwrap();
        let c0 = cur.pop().unwrap();
        vals.push([c0, c1, c2]);
    }
    Ok(Run3 {
        nodes: vals.len(),
        vals,
        msgs,
        out_id,
        party_errors,
        party_panics,
        first_error,
    })
}

/// Randomness replay for three-party executions: Random / RandomPermutation nodes are answered
/// from a tape keyed by (party, identity of the original node), so an original and a rewritten
/// graph see the same draws even if some random nodes were dropped.
pub struct TapeHook {
    pub tape: std::collections::HashMap<(usize, (u64, u64)), Value>,
    /// node (graph id, node id) -> identity; nodes not listed use their own id
    pub ident: std::collections::HashMap<(u64, u64), (u64, u64)>,
    pub use_own_id: bool,
    pub rng: Rng,
    pub fresh_draws: u64,
}

impl PartyHook for TapeHook {
    fn eval(&mut self, party: usize, node: &Node, _deps: &[Value]) -> Option<CResult<Value>> {
        let op = node.get_operation();
        let t = match &op {
            Operation::Random(t) => t.clone(),
            Operation::RandomPermutation(n) => {
                ciphercore_base::data_types::array_type(vec![*n], ciphercore_base::data_types::UINT64)
            }
            _ => return None,
        };
        let gid = node.get_global_id();
        let id = match self.ident.get(&gid) {
            Some(i) => *i,
            None => {
                if self.use_own_id {
                    gid
                } else {
                    (u64::MAX, gid.1)
                }
            }
        };
        if let Some(v) = self.tape.get(&(party, id)) {
            return Some(Ok(v.clone()));
        }
        self.fresh_draws += 1;
        let v = match &op {
            Operation::RandomPermutation(n) => {
                let mut p: Vec<u128> = (0..*n as u128).collect();
                self.rng.shuffle(&mut p);
                crate::val::value_of_ints(&p, ciphercore_base::data_types::UINT64)
            }
            _ => rand_value(&mut self.rng, &t, Fill::Uniform),
        };
        self.tape.insert((party, id), v.clone());
        Some(Ok(v))
    }
}
