pub mod obs;
pub mod party3;
