pub mod ctx;
pub mod gen;
pub mod mon;
pub mod props;
pub mod rng;
pub mod val;
