//! C14 — secret sharing reconstructs, with the documented per-party layout; the two shares a
//! party holds are uniformly distributed whatever the secret is (histograms are emitted for the
//! Python statistics monitor).

use super::c13::rand_nested_type;
use crate::ctx::{guard, Ctx};
use crate::rng::fnv;
use crate::val::*;
use ciphercore_base::data_types::{array_type, scalar_type, Type, BIT, UINT8};
use ciphercore_base::data_values::Value;
use ciphercore_base::mpc::utils::share_vector;
use ciphercore_base::random::PRNG;
use ciphercore_base::typed_value::TypedValue;
use ciphercore_base::typed_value_secret_shared::replicated_shares::ReplicatedShares;
use ciphercore_base::typed_value_secret_shared::TypedValueSecretShared;
use serde_json::json;
use std::collections::BTreeMap;

fn slots(v: &Value) -> Option<Vec<Value>> {
    let k = v.to_vector().ok()?;
    if k.len() == 3 {
        Some(k)
    } else {
        None
    }
}

/// layout rules for the three per-party tuples of a sharing of `secret`
fn check_layout(ctx: &mut Ctx, api: &str, parties: &[Value], secret: &Value, t: &Type, big: bool) {
    let mut s: Vec<Vec<Value>> = vec![];
    for p in parties.iter() {
        match slots(p) {
            Some(x) => s.push(x),
            None => {
                ctx.violation(
                    &format!("C14|layout_shape|{}", api),
                    json!({"what": "per-party value is not a 3-tuple", "type": format!("{}", t)}),
                );
                return;
            }
        }
    }
    ctx.count("layouts_checked", 1);
    // share j is held by party j (slot j) and party j-1 (slot j)
    for j in 0..3 {
        let holder_a = j;
        let holder_b = (j + 2) % 3;
        if s[holder_a][j] != s[holder_b][j] {
            ctx.violation(
                &format!("C14|layout_inconsistent|{}", api),
                json!({"what": format!("parties {} and {} disagree on share {}", holder_a, holder_b, j),
                       "type": format!("{}", t)}),
            );
        }
    }
    let sum = tree_add(&tree_add(&s[0][0], &s[1][1], t), &s[2][2], t);
    if sum != *secret {
        ctx.violation(
            &format!("C14|layout_reconstruct|{}", api),
            json!({"what": "shares held by the parties do not add up to the secret", "type": format!("{}", t),
                   "secret": value_json(secret), "sum": value_json(&sum)}),
        );
    }
    // any two parties reconstruct: parties i and i+1 hold shares i, i+1, i+2 between them
    for i in 0..3 {
        let j = (i + 1) % 3;
        let k = (i + 2) % 3;
        let sum2 = tree_add(&tree_add(&s[i][i], &s[i][j], t), &s[j][k], t);
        if sum2 != *secret {
            ctx.violation(
                &format!("C14|two_party_reconstruct|{}", api),
                json!({"what": format!("parties {} and {} cannot reconstruct", i, j), "type": format!("{}", t)}),
            );
        }
    }
    // the third slot of party i must not be the true share i+2 (only decidable for wide types)
    if big {
        for i in 0..3 {
            let k = (i + 2) % 3;
            ctx.count("garbage_slots_checked", 1);
            if s[i][k] == s[k][k] {
                ctx.violation(
                    &format!("C14|garbage_slot_is_true_share|{}", api),
                    json!({"what": format!("party {} was given the true share {} in the slot it must not know", i, k),
                           "type": format!("{}", t)}),
                );
            }
        }
    }
}

fn bits_of_type(t: &Type) -> u64 {
    ciphercore_base::data_types::get_size_in_bits(t.clone()).unwrap_or(0)
}

pub fn run(ctx: &mut Ctx) {
    let total = ctx.q(100000, 1000000);
    ctx.cases("reconstruct", total, |ctx, idx| {
        let depth = (idx % 4) as u32;
        let t = rand_nested_type(&mut ctx.rng, depth);
        let fill = pick_fill(&mut ctx.rng);
        let v = rand_value(&mut ctx.rng, &t, fill);
        let big = match &t {
            Type::Scalar(_) | Type::Array(_, _) => bits_of_type(&t) >= 64,
            _ => false,
        };
        let tv = match guard(|| TypedValue::new(t.clone(), v.clone())) {
            Ok(Ok(x)) => x,
            _ => {
                ctx.count("typed_value_new_failed", 1);
                return;
            }
        };
        let seed = ctx.rng.seed16();
        // (a) secret_share / secret_share_reveal
        let r = guard(|| -> ciphercore_base::errors::Result<(TypedValue, TypedValue)> {
            let mut prng = PRNG::new(Some(seed))?;
            let sh = tv.secret_share(&mut prng)?;
            let back = sh.secret_share_reveal()?;
            Ok((sh, back))
        });
        match r {
            Ok(Ok((sh, back))) => {
                ctx.count("reveals", 1);
                if back.value != v || back.t != t {
                    ctx.violation(
                        "C14|reveal_mismatch|TypedValue::secret_share",
                        json!({"what": "secret_share_reveal(secret_share(v)) != v", "type": format!("{}", t),
                               "value": value_json(&v), "back": value_json(&back.value)}),
                    );
                }
                if let Some(s) = slots(&sh.value) {
                    let sum = tree_add(&tree_add(&s[0], &s[1], &t), &s[2], &t);
                    if sum != v {
                        ctx.violation(
                            "C14|shares_do_not_add_up|TypedValue::secret_share",
                            json!({"what": "independent sum of the three shares differs from the secret",
                                   "type": format!("{}", t)}),
                        );
                    }
                    match layout_check(&sh.value, &sh.t) {
                        Ok(_) => {}
                        Err(e) => ctx.violation("C14|share_layout", json!({"what": e, "type": format!("{}", t)})),
                    }
                }
            }
            Ok(Err(e)) => ctx.violation(
                "C14|error|TypedValue::secret_share",
                json!({"what": format!("{}", e), "type": format!("{}", t)}),
            ),
            Err(p) => ctx.violation(
                &format!("C14|panic|{}", p.site),
                json!({"what": p.message, "type": format!("{}", t)}),
            ),
        }
        // (b) per-party form
        let seed = ctx.rng.seed16();
        match guard(|| {
            let mut prng = PRNG::new(Some(seed))?;
            tv.get_local_shares_for_each_party(&mut prng)
        }) {
            Ok(Ok(ps)) => {
                let vals: Vec<Value> = ps.iter().map(|x| x.value.clone()).collect();
                check_layout(ctx, "get_local_shares_for_each_party", &vals, &v, &t, big);
            }
            Ok(Err(e)) => ctx.violation(
                "C14|error|get_local_shares_for_each_party",
                json!({"what": format!("{}", e), "type": format!("{}", t)}),
            ),
            Err(p) => ctx.violation(&format!("C14|panic|{}", p.site), json!({"what": p.message})),
        }
        // (c) ReplicatedShares
        let seed = ctx.rng.seed16();
        let tv2 = tv.clone();
        match guard(|| -> ciphercore_base::errors::Result<(Vec<Value>, TypedValue)> {
            let mut prng = PRNG::new(Some(seed))?;
            let ps = ReplicatedShares::secret_share_for_parties(tv2.clone(), &mut prng)?;
            let mut vals = vec![];
            for p in ps.iter() {
                vals.push(p.to_tuple()?.value);
            }
            let local = ReplicatedShares::secret_share_for_local_evaluation(tv2.clone(), &mut prng)?;
            Ok((vals, local.reveal()?))
        }) {
            Ok(Ok((vals, back))) => {
                check_layout(ctx, "ReplicatedShares::secret_share_for_parties", &vals, &v, &t, big);
                ctx.count("reveals", 1);
                if back.value != v {
                    ctx.violation(
                        "C14|reveal_mismatch|ReplicatedShares",
                        json!({"what": "reveal(secret_share_for_local_evaluation(v)) != v", "type": format!("{}", t)}),
                    );
                }
            }
            Ok(Err(e)) => ctx.violation(
                "C14|error|ReplicatedShares",
                json!({"what": format!("{}", e), "type": format!("{}", t)}),
            ),
            Err(p) => ctx.violation(&format!("C14|panic|{}", p.site), json!({"what": p.message})),
        }
        // (d) share_vector on flat arrays
        if let Type::Array(shape, st) = &t {
            if *st != BIT {
                let n: u64 = shape.iter().product();
                let flat_t = array_type(vec![n], *st);
                let ints = ints_of_value(&v, &t).unwrap();
                let seed = ctx.rng.seed16();
                match guard(|| {
                    let mut prng = PRNG::new(Some(seed))?;
                    share_vector(&mut prng, &ints, *st)
                }) {
                    Ok(Ok(vals)) => {
                        check_layout(ctx, "share_vector", &vals, &v, &flat_t, bits_of_type(&t) >= 64);
                    }
                    Ok(Err(e)) => ctx.violation(
                        "C14|error|share_vector",
                        json!({"what": format!("{}", e), "type": format!("{}", t)}),
                    ),
                    Err(p) => ctx.violation(&format!("C14|panic|{}", p.site), json!({"what": p.message})),
                }
            }
        }
        let mut h = vec![];
        canon(&v, &mut h);
        h.extend_from_slice(format!("{}", t).as_bytes());
        ctx.case_done(fnv(&h), true);
        if idx < 48 {
            ctx.sample(json!({"type": format!("{}", t), "value": value_json(&v)}));
        }
    });

    // distribution of the pair (slot i, slot i+1) a single party holds, over generator seeds
    let mut hist: BTreeMap<String, Vec<u64>> = BTreeMap::new();
    let draws = ctx.q(300000u64, 3000000);
    let block = 500u64;
    let secrets_bit = [0u128, 1];
    let secrets_u8 = [0u128, 1, 255, 0x5a];
    ctx.cases("distribution", draws / block, |ctx, _idx| {
        for _ in 0..block {
            for (st, secrets) in [(BIT, &secrets_bit[..]), (UINT8, &secrets_u8[..])] {
                for sec in secrets.iter() {
                    let t = scalar_type(st);
                    let tv = TypedValue::new(t.clone(), value_of_ints(&[*sec], st)).unwrap();
                    let seed = ctx.rng.seed16();
                    let ps = match guard(|| {
                        let mut prng = PRNG::new(Some(seed))?;
                        tv.get_local_shares_for_each_party(&mut prng)
                    }) {
                        Ok(Ok(ps)) => ps,
                        _ => {
                            ctx.count("distribution_errors", 1);
                            continue;
                        }
                    };
                    ctx.count("distribution_draws", 1);
                    for i in 0..3usize {
                        let s = slots(&ps[i].value).unwrap();
                        let a = ints_of_value(&s[i], &t).unwrap()[0];
                        let b = ints_of_value(&s[(i + 1) % 3], &t).unwrap()[0];
                        if st == BIT {
                            let h = hist
                                .entry(format!("bit.pair.party{}.secret{}", i, sec))
                                .or_insert_with(|| vec![0; 4]);
                            h[(a * 2 + b) as usize] += 1;
                        } else {
                            let h = hist
                                .entry(format!("u8.first.party{}.secret{}", i, sec))
                                .or_insert_with(|| vec![0; 256]);
                            h[a as usize] += 1;
                            let h = hist
                                .entry(format!("u8.second.party{}.secret{}", i, sec))
                                .or_insert_with(|| vec![0; 256]);
                            h[b as usize] += 1;
                            let h = hist
                                .entry(format!("u8.sum.party{}.secret{}", i, sec))
                                .or_insert_with(|| vec![0; 256]);
                            h[((a + b) & 255) as usize] += 1;
                            let h = hist
                                .entry(format!("u8.lowpair.party{}.secret{}", i, sec))
                                .or_insert_with(|| vec![0; 16]);
                            h[(((a & 3) << 2) | (b & 3)) as usize] += 1;
                        }
                    }
                }
            }
        }
    });
    ctx.set_extra("hist", json!(hist));
}
