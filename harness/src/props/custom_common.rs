//! Helpers for the one-operation sweeps of library custom operations (C16, C17, C18, C20).

use crate::ctx::guard;
use crate::val::{decode, encode, mask};
use ciphercore_base::custom_ops::{run_instantiation_pass, CustomOperation};
use ciphercore_base::data_types::{Type, BIT};
use ciphercore_base::data_values::Value;
use ciphercore_base::evaluators::simple_evaluator::SimpleEvaluator;
use ciphercore_base::evaluators::Evaluator;
use ciphercore_base::graphs::{create_context, Context, Graph, Node};
use ciphercore_base::inline::inline_ops::{inline_operations, InlineConfig};

/// numbers -> bit array value, LSB first, `w` bits per number, row-major
pub fn bits_value(nums: &[u128], w: usize) -> Value {
    let mut bits = Vec::with_capacity(nums.len() * w);
    for x in nums {
        for j in 0..w {
            bits.push((x >> j) & 1);
        }
    }
    Value::from_bytes(encode(&bits, BIT))
}

pub fn nums_of_bits(v: &Value, count: usize, w: usize) -> Option<Vec<u128>> {
    let bits = v
        .access(|b| Ok(decode(b, BIT, count * w)), |_| Ok(None))
        .ok()
        .flatten()?;
    let mut out = Vec::with_capacity(count);
    for i in 0..count {
        let mut x = 0u128;
        for j in 0..w {
            x |= bits[i * w + j] << j;
        }
        out.push(x);
    }
    Some(out)
}

pub fn signed_of(x: u128, w: usize) -> i128 {
    let x = x & mask(w as u32);
    if w < 128 && (x >> (w - 1)) & 1 == 1 {
        (x | !mask(w as u32)) as i128
    } else {
        x as i128
    }
}

/// Build a context whose main graph is produced by `f` from inputs of the given types.
pub fn build_context(
    arg_types: &[Type],
    f: impl FnOnce(&Graph, &[Node]) -> ciphercore_base::errors::Result<Node>,
) -> Result<Context, String> {
    let r = guard(|| -> ciphercore_base::errors::Result<Context> {
        let c = create_context()?;
        let g = c.create_graph()?;
        let mut ins = vec![];
        for t in arg_types {
            ins.push(g.input(t.clone())?);
        }
        let o = f(&g, &ins)?;
        o.set_as_output()?;
        g.finalize()?;
        g.set_as_main()?;
        c.finalize()?;
        Ok(c)
    });
    match r {
        Ok(Ok(c)) => Ok(c),
        Ok(Err(e)) => Err(format!("error: {}", e.to_string().lines().next().unwrap_or(""))),
        Err(p) => Err(format!("panic: {} @ {}", p.message, p.site)),
    }
}

pub fn custom_context(op: CustomOperation, arg_types: &[Type]) -> Result<Context, String> {
    build_context(arg_types, |g, ins| g.custom_op(op, ins.to_vec()))
}

/// instantiate (+ optionally inline) and evaluate
pub fn eval_instantiated(
    c: &Context,
    inline: Option<InlineConfig>,
    args: Vec<Value>,
    seed: [u8; 16],
) -> Result<Value, String> {
    let c = c.clone();
    let r = guard(move || -> ciphercore_base::errors::Result<Value> {
        let mut inst = run_instantiation_pass(c)?.get_context();
        if let Some(cfg) = inline {
            inst = inline_operations(&inst, cfg)?.get_context();
        }
        let mut ev = SimpleEvaluator::new(Some(seed))?;
        ev.preprocess(&inst)?;
        ev.evaluate_context(inst, args)
    });
    match r {
        Ok(Ok(v)) => Ok(v),
        Ok(Err(e)) => Err(format!("error: {}", e.to_string().lines().next().unwrap_or(""))),
        Err(p) => Err(format!("panic: {} @ {}", p.message, p.site)),
    }
}

/// A prepared (instantiated, optionally inlined) context that can be evaluated many times.
pub struct Prepared {
    pub ctx: Context,
}

pub fn prepare(c: &Context, inline: Option<InlineConfig>) -> Result<Prepared, String> {
    let c = c.clone();
    let r = guard(move || -> ciphercore_base::errors::Result<Context> {
        let mut inst = run_instantiation_pass(c)?.get_context();
        if let Some(cfg) = inline {
            inst = inline_operations(&inst, cfg)?.get_context();
        }
        Ok(inst)
    });
    match r {
        Ok(Ok(ctx)) => Ok(Prepared { ctx }),
        Ok(Err(e)) => Err(format!("error: {}", e.to_string().lines().next().unwrap_or(""))),
        Err(p) => Err(format!("panic: {} @ {}", p.message, p.site)),
    }
}

impl Prepared {
    pub fn eval(&self, args: Vec<Value>, seed: [u8; 16]) -> Result<Value, String> {
        let c = self.ctx.clone();
        let r = guard(move || -> ciphercore_base::errors::Result<Value> {
            let mut ev = SimpleEvaluator::new(Some(seed))?;
            ev.preprocess(&c)?;
            ev.evaluate_context(c, args)
        });
        match r {
            Ok(Ok(v)) => Ok(v),
            Ok(Err(e)) => Err(format!("error: {}", e.to_string().lines().next().unwrap_or(""))),
            Err(p) => Err(format!("panic: {} @ {}", p.message, p.site)),
        }
    }
}

/// numpy-style broadcast of two leading shapes
pub fn broadcast_shapes(a: &[u64], b: &[u64]) -> Option<Vec<u64>> {
    let n = a.len().max(b.len());
    let mut out = vec![0u64; n];
    for i in 0..n {
        let x = if i + a.len() >= n { a[i + a.len() - n] } else { 1 };
        let y = if i + b.len() >= n { b[i + b.len() - n] } else { 1 };
        out[i] = if x == y {
            x
        } else if x == 1 {
            y
        } else if y == 1 {
            x
        } else {
            return None;
        };
    }
    Some(out)
}

/// flat index into an operand of shape `s` for the multi-index `idx` of the broadcast shape
pub fn bcast_index(idx: &[u64], s: &[u64]) -> usize {
    let n = idx.len();
    let mut flat = 0usize;
    for (k, d) in s.iter().enumerate() {
        let i = idx[n - s.len() + k];
        let i = if *d == 1 { 0 } else { i };
        flat = flat * (*d as usize) + i as usize;
    }
    flat
}

pub fn unravel(mut i: usize, shape: &[u64]) -> Vec<u64> {
    let mut idx = vec![0u64; shape.len()];
    for k in (0..shape.len()).rev() {
        let d = shape[k] as usize;
        idx[k] = (i % d) as u64;
        i /= d;
    }
    idx
}
