//! Shared plumbing for the properties that compile graphs to MPC: configurations, the compile
//! call, input preparation for single-evaluator and three-party execution, output checks.

use crate::ctx::{guard, PanicInfo};
use crate::mon::party3::{run3, NoHook, PartyHook, Run3};
use crate::rng::Rng;
use crate::val::{rand_value, share3, tree_add, Fill};
use ciphercore_base::custom_ops::run_instantiation_pass;
use ciphercore_base::data_types::Type;
use ciphercore_base::data_values::Value;
use ciphercore_base::evaluators::simple_evaluator::SimpleEvaluator;
use ciphercore_base::evaluators::Evaluator;
use ciphercore_base::graphs::Context;
use ciphercore_base::inline::inline_ops::{DepthOptimizationLevel, InlineConfig, InlineMode};
use ciphercore_base::mpc::mpc_compiler::{compile_context, IOStatus};

#[derive(Clone, Copy, Debug, PartialEq, Eq)]
pub enum Owner {
    P(u64),
    Public,
    Shared,
}

impl Owner {
    pub fn status(&self) -> IOStatus {
        match self {
            Owner::P(i) => IOStatus::Party(*i),
            Owner::Public => IOStatus::Public,
            Owner::Shared => IOStatus::Shared,
        }
    }
    pub fn name(&self) -> String {
        match self {
            Owner::P(i) => format!("{}", i),
            Owner::Public => "pub".to_string(),
            Owner::Shared => "sh".to_string(),
        }
    }
}

pub const ALL_OWNERS: [Owner; 5] = [
    Owner::P(0),
    Owner::P(1),
    Owner::P(2),
    Owner::Public,
    Owner::Shared,
];

#[derive(Clone, Debug)]
pub struct Config {
    pub owners: Vec<Owner>,
    /// ordered list of output parties (empty = output stays secret-shared)
    pub outs: Vec<u64>,
    pub inline: InlineConfig,
    pub inline_name: &'static str,
}

impl Config {
    pub fn describe(&self) -> String {
        format!(
            "owners=[{}] outs={:?} inline={}",
            self.owners.iter().map(|o| o.name()).collect::<Vec<_>>().join(","),
            self.outs,
            self.inline_name
        )
    }
}

pub fn inline_modes() -> Vec<(InlineConfig, &'static str)> {
    vec![
        (
            InlineConfig {
                default_mode: InlineMode::Simple,
                ..Default::default()
            },
            "simple",
        ),
        (
            InlineConfig {
                default_mode: InlineMode::DepthOptimized(DepthOptimizationLevel::Default),
                ..Default::default()
            },
            "depth-default",
        ),
        (
            InlineConfig {
                default_mode: InlineMode::DepthOptimized(DepthOptimizationLevel::Extreme),
                ..Default::default()
            },
            "depth-extreme",
        ),
    ]
}

/// all ordered output-party lists: 8 subsets, plus the reversed order of the two-element ones
/// and two rotations of the full list (the first listed party receives the shares)
pub fn all_out_lists() -> Vec<Vec<u64>> {
    vec![
        vec![],
        vec![0],
        vec![1],
        vec![2],
        vec![0, 1],
        vec![1, 0],
        vec![0, 2],
        vec![2, 0],
        vec![1, 2],
        vec![2, 1],
        vec![0, 1, 2],
        vec![1, 2, 0],
        vec![2, 0, 1],
    ]
}

pub fn rand_config(rng: &mut Rng, n_inputs: usize) -> Config {
    let owners = (0..n_inputs).map(|_| *rng.pick(&ALL_OWNERS)).collect();
    let outs = rng.pick(&all_out_lists()).clone();
    let (inline, inline_name) = rng.pick(&inline_modes()).clone();
    Config {
        owners,
        outs,
        inline,
        inline_name,
    }
}

pub enum Compiled {
    Ok(Context),
    Rejected(String),
    Panicked(PanicInfo),
}

pub fn compile(ctx: &Context, cfg: &Config, seed: [u8; 16]) -> Compiled {
    let owners: Vec<IOStatus> = cfg.owners.iter().map(|o| o.status()).collect();
    let outs: Vec<IOStatus> = cfg.outs.iter().map(|p| IOStatus::Party(*p)).collect();
    let inline = cfg.inline.clone();
    let c = ctx.clone();
    let r = guard(move || {
        compile_context(c, owners, outs, inline, move || SimpleEvaluator::new(Some(seed)))
    });
    match r {
        Ok(Ok(mc)) => Compiled::Ok(mc.get_context()),
        Ok(Err(e)) => Compiled::Rejected(first_line(&format!("{}", e))),
        Err(p) => Compiled::Panicked(p),
    }
}

pub fn first_line(s: &str) -> String {
    let l = s.lines().next().unwrap_or("");
    // strip things that vary per case (numbers)
    let mut out = String::new();
    for ch in l.chars().take(90) {
        if ch.is_ascii_digit() {
            out.push('#');
        } else {
            out.push(ch);
        }
    }
    out
}

/// Reference value: SimpleEvaluator on the instantiated source context.
pub fn source_eval(ctx: &Context, inputs: &[Value], seed: [u8; 16]) -> Result<Value, String> {
    let c = ctx.clone();
    let ins = inputs.to_vec();
    let r = guard(move || -> ciphercore_base::errors::Result<Value> {
        let inst = run_instantiation_pass(c)?.get_context();
        let mut ev = SimpleEvaluator::new(Some(seed))?;
        ev.preprocess(&inst)?;
        ev.evaluate_context(inst, ins)
    });
    match r {
        Ok(Ok(v)) => Ok(v),
        Ok(Err(e)) => Err(format!("error: {}", first_line(&format!("{}", e)))),
        Err(p) => Err(format!("panic: {} @ {}", p.message, p.site)),
    }
}

pub fn eval_single(ctx: &Context, inputs: Vec<Value>, seed: [u8; 16]) -> Result<Value, String> {
    let c = ctx.clone();
    let r = guard(move || -> ciphercore_base::errors::Result<Value> {
        let mut ev = SimpleEvaluator::new(Some(seed))?;
        ev.preprocess(&c)?;
        ev.evaluate_context(c, inputs)
    });
    match r {
        Ok(Ok(v)) => Ok(v),
        Ok(Err(e)) => Err(format!("error: {}", first_line(&format!("{}", e)))),
        Err(p) => Err(format!("panic: {} @ {}", p.message, p.site)),
    }
}

/// Inputs of the compiled graph for a single global evaluator.
pub fn inputs_single(rng: &mut Rng, cfg: &Config, types: &[Type], inputs: &[Value]) -> Vec<Value> {
    let mut out = vec![];
    for (k, o) in cfg.owners.iter().enumerate() {
        match o {
            Owner::Shared => {
                let s = share3(rng, &inputs[k], &types[k]);
                out.push(Value::from_vector(s.to_vec()));
            }
            _ => out.push(inputs[k].clone()),
        }
    }
    out
}

/// Reveal the output of a single-evaluator run: the value itself when there are output parties,
/// the sum of the three shares otherwise.
pub fn reveal_single(cfg: &Config, out: &Value, out_type: &Type) -> Result<Value, String> {
    if !cfg.outs.is_empty() {
        return Ok(out.clone());
    }
    let parts = out.to_vector().map_err(|e| format!("shared output is not a tuple: {}", e))?;
    if parts.len() != 3 {
        return Err(format!("shared output has {} components", parts.len()));
    }
    let s = tree_add(&tree_add(&parts[0], &parts[1], out_type), &parts[2], out_type);
    Ok(s)
}

/// Per-party inputs for the three-party executor: real values for owned/public inputs, junk
/// for inputs owned by someone else, (share p, share p+1, junk) for shared inputs.
pub fn inputs_party(
    rng: &mut Rng,
    cfg: &Config,
    types: &[Type],
    inputs: &[Value],
    junk: Fill,
) -> [Vec<Value>; 3] {
    let mut out: [Vec<Value>; 3] = [vec![], vec![], vec![]];
    for (k, o) in cfg.owners.iter().enumerate() {
        match o {
            Owner::Public => {
                for p in 0..3 {
                    out[p].push(inputs[k].clone());
                }
            }
            Owner::P(q) => {
                for p in 0..3 {
                    if p as u64 == *q {
                        out[p].push(inputs[k].clone());
                    } else {
                        out[p].push(rand_value(rng, &types[k], junk));
                    }
                }
            }
            Owner::Shared => {
                let s = share3(rng, &inputs[k], &types[k]);
                for p in 0..3 {
                    let mut slots = vec![];
                    for j in 0..3 {
                        if j == p || j == (p + 1) % 3 {
                            slots.push(s[j].clone());
                        } else {
                            slots.push(rand_value(rng, &types[k], junk));
                        }
                    }
                    out[p].push(Value::from_vector(slots));
                }
            }
        }
    }
    out
}

pub fn run_parties(
    compiled: &Context,
    inputs: &[Vec<Value>; 3],
    seeds: [[u8; 16]; 3],
    junk_seed: u64,
    hook: Option<&mut dyn PartyHook>,
) -> Result<Run3, String> {
    let g = compiled.get_main_graph().map_err(|e| format!("{}", e))?;
    let mut nh = NoHook;
    match hook {
        Some(h) => run3(&g, inputs, seeds, junk_seed, h),
        None => run3(&g, inputs, seeds, junk_seed, &mut nh),
    }
}

/// Checks what the designated parties end with. Returns (kind, detail) per problem.
pub fn check_party_outputs(
    cfg: &Config,
    run: &Run3,
    expected: &Value,
    out_type: &Type,
) -> Vec<(String, String)> {
    let mut bad = vec![];
    if !cfg.outs.is_empty() {
        for p in cfg.outs.iter() {
            let v = run.output(*p as usize);
            if v != *expected {
                bad.push((
                    "party_output_wrong".to_string(),
                    format!(
                        "party {} ends with a value different from the source result{}",
                        p,
                        match &run.first_error[*p as usize] {
                            Some(e) => format!(" (its first failed evaluation: {})", e),
                            None => String::new(),
                        }
                    ),
                ));
            }
        }
    } else {
        let mut slots: Vec<Vec<Value>> = vec![];
        for p in 0..3 {
            match run.output(p).to_vector() {
                Ok(v) if v.len() == 3 => slots.push(v),
                _ => {
                    bad.push((
                        "shared_output_shape".to_string(),
                        format!("party {} output is not a 3-tuple", p),
                    ));
                    return bad;
                }
            }
        }
        for p in 0..3 {
            let q = (p + 1) % 3;
            if slots[p][q] != slots[q][q] {
                bad.push((
                    "shared_output_inconsistent".to_string(),
                    format!(
                        "party {}'s copy of share {} differs from party {}'s own share {}",
                        p, q, q, q
                    ),
                ));
            }
        }
        let s = tree_add(
            &tree_add(&slots[0][0], &slots[1][1], out_type),
            &slots[2][2],
            out_type,
        );
        if s != *expected {
            bad.push((
                "shared_output_wrong".to_string(),
                "the parties' own shares do not reconstruct the source result".to_string(),
            ));
        }
    }
    bad
}

pub fn seeds3(rng: &mut Rng) -> [[u8; 16]; 3] {
    [rng.seed16(), rng.seed16(), rng.seed16()]
}

/// Total size in bits of the values one execution of the main graph computes (a cost estimate:
/// the rare generated program whose compiled graph works on hundreds of megabits takes minutes
/// per execution).
pub fn work_bits(c: &Context) -> u64 {
    c.get_main_graph()
        .map(|g| {
            g.get_nodes()
                .iter()
                .map(|n| n.get_type().ok().and_then(|t| ciphercore_base::data_types::get_size_in_bits(t).ok()).unwrap_or(0))
                .fold(0u64, |a, b| a.saturating_add(b))
        })
        .unwrap_or(0)
}

pub const HEAVY_WORK_BITS: u64 = 1 << 22;

/// Size in bits of the largest node value in any graph of the context. Type inference accepts
/// valid operations whose result has billions of elements (a Dot of two rank-4 arrays); evaluating
/// one is an allocation of tens of gigabytes, which aborts the process rather than failing a case.
pub fn max_node_bits(c: &Context) -> u64 {
    c.get_graphs()
        .iter()
        .flat_map(|g| g.get_nodes())
        .map(|n| n.get_type().ok().and_then(|t| ciphercore_base::data_types::get_size_in_bits(t).ok()).unwrap_or(u64::MAX))
        .max()
        .unwrap_or(0)
}

pub const GIANT_NODE_BITS: u64 = 1 << 27;
