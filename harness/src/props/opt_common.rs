//! Shared checker for optimize_context (C04: randomising / PRF nodes are left alone; C06: meaning,
//! interface, send markers, recorded types, mapping).

use crate::ctx::{guard, Ctx};
use crate::mon::obs::Obs;
use crate::mon::party3::{run3, TapeHook};
use crate::rng::Rng;
use crate::val::*;
use ciphercore_base::data_types::Type;
use ciphercore_base::data_values::Value;
use ciphercore_base::evaluators::simple_evaluator::SimpleEvaluator;
use ciphercore_base::evaluators::Evaluator;
use ciphercore_base::graphs::{Context, Node, NodeAnnotation, Operation};
use ciphercore_base::optimizer::optimize::optimize_context;
use serde_json::json;
use std::collections::{HashMap, HashSet};

fn is_rand_or_prf(op: &Operation) -> bool {
    matches!(
        op,
        Operation::Random(_) | Operation::RandomPermutation(_) | Operation::PRF(_, _) | Operation::PermutationFromPRF(_, _)
    )
}

fn is_rand(op: &Operation) -> bool {
    matches!(op, Operation::Random(_) | Operation::RandomPermutation(_))
}

fn short_op(op: &Operation) -> String {
    let s = format!("{}", op);
    s.split(|c: char| !c.is_alphanumeric()).next().unwrap_or("").to_string()
}

fn sends(n: &Node) -> Vec<(u64, u64)> {
    n.get_annotations()
        .unwrap_or_default()
        .iter()
        .filter_map(|a| if let NodeAnnotation::Send(s, r) = a { Some((*s, *r)) } else { None })
        .collect()
}

pub struct OptStats {
    pub folded: u64,
    pub removed: u64,
    pub merged: u64,
}

/// `which`: "C04" or "C06" (selects which families of findings are reported).
/// Returns true when the optimizer ran and the case was fully checked.
pub fn check_optimizer(
    ctx: &mut Ctx,
    which: &str,
    orig: &Context,
    input_types: &[Type],
    ops: &[String],
    tag: &str,
) -> Option<OptStats> {
    if super::mpc_common::max_node_bits(orig) > super::mpc_common::GIANT_NODE_BITS {
        // the optimizer evaluates constant sub-graphs and the check evaluates everything: a node
        // value of more than 16 MB is an allocation problem, not a case
        ctx.count("skipped_giant_node_program", 1);
        return None;
    }
    let ctx_json = || serde_json::to_string(orig).unwrap_or_default();
    let seed = ctx.rng.seed16();
    let o2 = orig.clone();
    let r = guard(move || optimize_context(&o2, SimpleEvaluator::new(Some(seed))?));
    let mc = match r {
        Ok(Ok(mc)) => mc,
        Ok(Err(e)) => {
            ctx.count("optimizer_returned_err", 1);
            ctx.count(&format!("optimizer_err.{}", super::mpc_common::first_line(&e.to_string())), 1);
            return None;
        }
        Err(p) => {
            ctx.violation(
                &format!("{}|optimizer_panic|{}", which, p.site),
                json!({"what": format!("optimize_context panicked: {}", p.message), "ops": ops, "context": ctx_json()}),
            );
            return None;
        }
    };
    ctx.count("optimizer_runs", 1);
    let opt = mc.get_context();
    let m = &mc.mappings;
    let og = orig.get_main_graph().unwrap();
    let ng = opt.get_main_graph().unwrap();
    let onodes = og.get_nodes();
    let nnodes = ng.get_nodes();
    let mut stats = OptStats { folded: 0, removed: 0, merged: 0 };
    // ---------------- structural walk of the mapping
    let mut image_of: HashMap<(u64, u64), Vec<u64>> = HashMap::new(); // new gid -> original ids
    let mut rev_rand: HashMap<(u64, u64), (u64, u64)> = HashMap::new();
    // (original node, marker missing on its image, image, some other carrier agreed so far, draws seen)
    let mut lost_markers: Vec<(Node, (u64, u64), Node, bool, u32)> = vec![];
    for n in onodes.iter() {
        let op = n.get_operation();
        if !m.contains_node(n) {
            stats.removed += 1;
            continue;
        }
        let img = m.get_node(n);
        if img.get_graph() != ng {
            ctx.violation(
                &format!("{}|mapping_points_outside", which),
                json!({"what": "mapping sends a node to a node that is not in the optimised main graph", "ops": ops}),
            );
            continue;
        }
        image_of.entry(img.get_global_id()).or_default().push(n.get_id());
        // a node that carries send markers and is still mapped: its markers must be found again "on a
        // node that carries the same value" - normally its image; otherwise any optimised node with
        // that marker whose value equals the node's value in every evaluated draw (decided below)
        if which == "C06" {
            let mine = sends(n);
            if !mine.is_empty() {
                ctx.count("annotated_nodes_mapped", 1);
                let theirs = sends(&img);
                for sr in mine.iter().filter(|sr| !theirs.contains(sr)) {
                    lost_markers.push((n.clone(), *sr, img.clone(), true, 0));
                }
            }
        }
        let iop = img.get_operation();
        if matches!(iop, Operation::Constant(_, _)) && !matches!(op, Operation::Constant(_, _)) {
            stats.folded += 1;
        }
        if is_rand_or_prf(&op) {
            ctx.count("random_or_prf_nodes_mapped", 1);
            if which == "C04" {
                if matches!(iop, Operation::Constant(_, _)) {
                    let kind = if is_rand(&op) { "Random" } else { "PRF" };
                    ctx.violation(
                        &format!("C04|folded_to_constant|{}", kind),
                        json!({"what": format!("optimizer replaced a {} node by a Constant", op), "ops": ops,
                               "key_is": n.get_node_dependencies().first().map(|k| format!("{}", k.get_operation())),
                               "context": ctx_json()}),
                    );
                } else if iop != op {
                    ctx.violation(
                        "C04|image_is_other_operation",
                        json!({"what": format!("{} is mapped to {}", op, iop), "ops": ops, "context": ctx_json()}),
                    );
                }
            }
            if is_rand(&op) {
                rev_rand.entry(img.get_global_id()).or_insert(n.get_global_id());
            }
        }
    }
    for (new_gid, olds) in image_of.iter() {
        if olds.len() > 1 {
            stats.merged += (olds.len() - 1) as u64;
            let rp: Vec<&u64> = olds
                .iter()
                .filter(|i| is_rand_or_prf(&onodes[**i as usize].get_operation()))
                .collect();
            if rp.len() > 1 && which == "C04" {
                ctx.violation(
                    "C04|merged_random_or_prf_nodes",
                    json!({"what": format!("original nodes {:?} ({}) are mapped to the same node {:?}", rp,
                                           onodes[*rp[0] as usize].get_operation(), new_gid), "ops": ops,
                           "context": ctx_json()}),
                );
            }
        }
    }
    if which == "C04" {
        for n in nnodes.iter() {
            if is_rand_or_prf(&n.get_operation()) {
                ctx.count("random_or_prf_nodes_in_output", 1);
                let ok = image_of
                    .get(&n.get_global_id())
                    .map(|olds| olds.iter().any(|i| onodes[*i as usize].get_operation() == n.get_operation()))
                    .unwrap_or(false);
                if !ok {
                    ctx.violation(
                        "C04|random_or_prf_node_without_original",
                        json!({"what": format!("optimised graph contains {} that is the image of no original node of that kind",
                                               n.get_operation()), "ops": ops, "context": ctx_json()}),
                    );
                }
            }
        }
        // counters among PRF nodes stay distinct if they were distinct
        let ivs = |nodes: &Vec<Node>| -> Vec<u64> {
            nodes
                .iter()
                .filter_map(|n| match n.get_operation() {
                    Operation::PRF(iv, _) | Operation::PermutationFromPRF(iv, _) => Some(iv),
                    _ => None,
                })
                .collect()
        };
        let (a, b) = (ivs(&onodes), ivs(&nnodes));
        let distinct = |v: &Vec<u64>| v.iter().collect::<HashSet<_>>().len() == v.len();
        if distinct(&a) && !distinct(&b) {
            ctx.violation(
                "C04|counters_collide_after_optimizer",
                json!({"what": "PRF counters were distinct before the optimizer and are not after it", "ops": ops}),
            );
        }
    }
    if which == "C04" {
        // C04 only needs the structural part plus a semantic sanity check below
    }
    // ---------------- interface: inputs in order with name and type
    if which == "C06" {
        let ins = |nodes: &Vec<Node>| -> Vec<(String, Option<String>)> {
            nodes
                .iter()
                .filter(|n| n.get_operation().is_input())
                .map(|n| (format!("{}", n.get_type().unwrap()), n.get_name().unwrap_or(None)))
                .collect()
        };
        let (a, b) = (ins(&onodes), ins(&nnodes));
        ctx.count("input_lists_compared", 1);
        if a != b {
            ctx.violation(
                "C06|inputs_changed",
                json!({"what": format!("input list changed: {:?} -> {:?}", a, b), "ops": ops, "context": ctx_json()}),
            );
        }
        // send markers of the optimised graph must come from an original node with that marker
        for n in nnodes.iter() {
            for sr in sends(n) {
                ctx.count("sends_compared", 1);
                let ok = image_of
                    .get(&n.get_global_id())
                    .map(|olds| olds.iter().any(|i| sends(&onodes[*i as usize]).contains(&sr)))
                    .unwrap_or(false);
                if !ok {
                    ctx.violation(
                        "C06|send_marker_without_origin",
                        json!({"what": format!("optimised node {} carries Send{:?} but is not the image of an original node with it",
                                               n.get_id(), sr), "ops": ops, "context": ctx_json()}),
                    );
                }
            }
        }
    }
    // ---------------- semantic comparison under replayed randomness
    let n_draws = ctx.q(2, 4);
    for d in 0..n_draws {
        let fill = if d == 0 { Fill::Uniform } else { pick_fill(&mut ctx.rng) };
        let inputs: Vec<Value> = input_types.iter().map(|t| rand_value(&mut ctx.rng, t, fill)).collect();
        let mut o1 = Obs::new(ctx.rng.seed16());
        o1.keep_values = true;
        o1.identity = Some(Box::new(|n: &Node| Some(n.get_global_id())));
        let r1 = {
            let (c, ins, o) = (orig.clone(), inputs.clone(), &mut o1);
            guard(move || {
                o.preprocess(&c)?;
                o.evaluate_context(c, ins)
            })
        };
        let v1 = match r1 {
            Ok(Ok(v)) => v,
            Ok(Err(_)) => {
                ctx.count("original_eval_failed", 1);
                continue;
            }
            Err(_) => {
                ctx.count("original_eval_panicked", 1);
                continue;
            }
        };
        let mut o2 = Obs::new(ctx.rng.seed16());
        o2.keep_values = true;
        o2.tape = o1.tape.clone();
        let rr = rev_rand.clone();
        o2.identity = Some(Box::new(move |n: &Node| {
            Some(*rr.get(&n.get_global_id()).unwrap_or(&(u64::MAX, n.get_id())))
        }));
        let r2 = {
            let (c, ins, o) = (opt.clone(), inputs.clone(), &mut o2);
            guard(move || {
                o.preprocess(&c)?;
                o.evaluate_context(c, ins)
            })
        };
        ctx.count("evaluation_pairs", 1);
        match r2 {
            Ok(Ok(v2)) => {
                if v1 != v2 {
                    ctx.violation(
                        &format!("{}|output_changed|{}", which, tag),
                        json!({"what": "optimised graph returns a different value (same inputs, replayed randomness)",
                               "ops": ops, "context": ctx_json(),
                               "inputs": inputs.iter().map(value_json).collect::<Vec<_>>(),
                               "before": value_json(&v1), "after": value_json(&v2)}),
                    );
                }
            }
            Ok(Err(e)) => ctx.violation(
                &format!("{}|optimised_eval_error", which),
                json!({"what": format!("optimised graph fails where the original evaluates: {}",
                                       e.to_string().lines().next().unwrap_or("")), "ops": ops, "context": ctx_json()}),
            ),
            Err(p) => ctx.violation(
                &format!("{}|optimised_eval_panic|{}", which, p.site),
                json!({"what": p.message, "ops": ops, "context": ctx_json()}),
            ),
        }
        if which == "C06" {
            for (n, sr, _, ok, seen) in lost_markers.iter_mut() {
                if let Some(a) = o1.values.get(&n.get_global_id()) {
                    *seen += 1;
                    let carrier = nnodes
                        .iter()
                        .any(|x| sends(x).contains(sr) && o2.values.get(&x.get_global_id()) == Some(a));
                    *ok &= carrier;
                }
            }
            // every mapped node computes the same value
            for n in onodes.iter() {
                if !m.contains_node(n) {
                    continue;
                }
                let img = m.get_node(n);
                if let (Some(a), Some(b)) = (o1.values.get(&n.get_global_id()), o2.values.get(&img.get_global_id())) {
                    ctx.count("mapped_nodes_compared", 1);
                    if a != b {
                        ctx.violation(
                            &format!("C06|mapped_node_value_differs|{}", n.get_operation()),
                            json!({"what": format!("original node {} ({}) and its image {} ({}) compute different values",
                                                   n.get_id(), n.get_operation(), img.get_id(), img.get_operation()),
                                   "ops": ops, "context": ctx_json()}),
                        );
                        break;
                    }
                }
            }
        }
    }
    for (n, sr, img, ok, seen) in lost_markers.iter() {
        let any_carrier = nnodes.iter().any(|x| sends(x).contains(sr));
        if (*seen > 0 && !*ok) || !any_carrier {
            ctx.violation(
                &format!("C06|send_marker_lost|{}->{}", short_op(&n.get_operation()), short_op(&img.get_operation())),
                json!({"what": format!("node {} ({}) carries Send{:?}; the mapping sends it to node {} ({}) which does not, and no \
                                        other node of the optimised graph with that marker carries the same value",
                                       n.get_id(), n.get_operation(), sr, img.get_id(), img.get_operation()),
                       "ops": ops, "context": ctx_json()}),
            );
        } else {
            ctx.count("send_marker_on_other_node_with_same_value", 1);
        }
    }
    if which == "C06" {
        // ---------------- three-party semantics (send markers that still matter must be kept)
        let has_send = onodes.iter().any(|n| !sends(n).is_empty());
        if has_send {
            let per_party: [Vec<Value>; 3] = [
                input_types.iter().map(|t| rand_value(&mut ctx.rng, t, Fill::Uniform)).collect(),
                input_types.iter().map(|t| rand_value(&mut ctx.rng, t, Fill::Uniform)).collect(),
                input_types.iter().map(|t| rand_value(&mut ctx.rng, t, Fill::Uniform)).collect(),
            ];
            let seeds = [ctx.rng.seed16(), ctx.rng.seed16(), ctx.rng.seed16()];
            let mut h1 = TapeHook {
                tape: HashMap::new(),
                ident: HashMap::new(),
                use_own_id: true,
                rng: Rng::new(ctx.rng.next_u64()),
                fresh_draws: 0,
            };
            let js = ctx.rng.next_u64();
            let a = run3(&og, &per_party, seeds, js, &mut h1);
            let mut h2 = TapeHook {
                tape: h1.tape.clone(),
                ident: rev_rand.clone(),
                use_own_id: false,
                rng: Rng::new(ctx.rng.next_u64()),
                fresh_draws: 0,
            };
            let b = run3(&ng, &per_party, seeds, js, &mut h2);
            if let (Ok(a), Ok(b)) = (a, b) {
                let clean = a.party_errors.iter().sum::<u64>() + a.party_panics.iter().sum::<u64>() == 0;
                if clean {
                    ctx.count("three_party_pairs", 1);
                    ctx.count("messages", a.msgs.len() as u64 + b.msgs.len() as u64);
                    for p in 0..3 {
                        if a.output(p) != b.output(p) {
                            ctx.violation(
                                "C06|three_party_output_differs",
                                json!({"what": format!("party {} ends with a different value after optimisation (a send marker the output \
                                                        depends on was lost or moved)", p), "ops": ops, "context": ctx_json()}),
                            );
                            break;
                        }
                    }
                }
            }
        }
        // ---------------- reload: recorded types must be what type inference re-derives
        let s1 = guard(|| serde_json::to_string(&opt));
        match s1 {
            Ok(Ok(s)) => {
                ctx.count("reloads", 1);
                match guard(|| serde_json::from_str::<Context>(&s)) {
                    Ok(Ok(c2)) => {
                        if !opt.deep_equal(c2.clone()) {
                            ctx.violation(
                                "C06|reload_not_deep_equal",
                                json!({"what": "optimised context is not deep_equal to its reload", "ops": ops, "context": ctx_json()}),
                            );
                        }
                        let n2 = c2.get_main_graph().unwrap().get_nodes();
                        for (x, y) in nnodes.iter().zip(n2.iter()) {
                            let (tx, ty) = (x.get_type(), y.get_type());
                            ctx.count("recorded_types_compared", 1);
                            if let (Ok(tx), Ok(ty)) = (tx, ty) {
                                if tx != ty {
                                    ctx.violation(
                                        &format!("C06|recorded_type_differs|{}", x.get_operation()),
                                        json!({"what": format!("optimizer recorded type {} for {} but type inference re-derives {}",
                                                               tx, x.get_operation(), ty), "ops": ops, "context": ctx_json()}),
                                    );
                                    break;
                                }
                            }
                        }
                    }
                    Ok(Err(e)) => ctx.violation(
                        "C06|reload_rejected",
                        json!({"what": format!("optimised context cannot be reloaded: {}",
                                               e.to_string().lines().next().unwrap_or("")), "ops": ops, "context": ctx_json()}),
                    ),
                    Err(p) => ctx.violation(
                        &format!("C06|reload_panic|{}", p.site),
                        json!({"what": p.message, "ops": ops, "context": ctx_json()}),
                    ),
                }
            }
            _ => ctx.count("serialize_failed", 1),
        }
    }
    ctx.count("graphs_with_folded_constant", (stats.folded > 0) as u64);
    ctx.count("graphs_with_removed_nodes", (stats.removed > 0) as u64);
    ctx.count("graphs_with_merged_duplicates", (stats.merged > 0) as u64);
    Some(stats)
}
