//! C15 — PRF and PRNG are deterministic, in-domain and unbiased.
//! Online call-history monitor (first observed answer per (key, counter, type) is the model),
//! layout / permutation / range checks, and histograms for the Python statistics monitor.

use crate::ctx::{guard, Ctx};
use crate::rng::{fnv, mix, Rng};
use crate::val::*;
use ciphercore_base::data_types::{
    array_type, named_tuple_type, scalar_type, tuple_type, vector_type, Type, BIT, UINT64, UINT8,
};
use ciphercore_base::data_values::Value;
use ciphercore_base::evaluators::simple_evaluator::SimpleEvaluator;
use ciphercore_base::evaluators::Evaluator;
use ciphercore_base::graphs::{create_context, Node};
use ciphercore_base::random::PRNG;
use serde_json::json;
use std::collections::{BTreeMap, HashMap};

fn is_perm(v: &Value, n: u64) -> bool {
    let t = array_type(vec![n], UINT64);
    match ints_of_value(v, &t) {
        Some(xs) => {
            let mut seen = vec![false; n as usize];
            for x in xs {
                if x >= n as u128 || seen[x as usize] {
                    return false;
                }
                seen[x as usize] = true;
            }
            true
        }
        None => false,
    }
}

fn lehmer(xs: &[u128]) -> usize {
    // index of the permutation among n!
    let n = xs.len();
    let mut idx = 0usize;
    for i in 0..n {
        let smaller = (i + 1..n).filter(|j| xs[*j] < xs[i]).count();
        idx = idx * (n - i) + smaller;
    }
    idx
}

fn rand_out_type(rng: &mut Rng) -> Type {
    let st = *rng.pick(&ALL_ST);
    match rng.below(10) {
        0 => scalar_type(st),
        1 => array_type(vec![rng.range(1, 70)], BIT),
        2 => array_type(vec![rng.range(1, 9), rng.range(1, 9)], BIT),
        3 => array_type(vec![rng.range(40, 2000)], UINT8), // crosses the 64 -> 512 byte buffer growth
        4 => array_type(vec![rng.range(1, 40)], st),
        5 => tuple_type(vec![
            array_type(vec![rng.range(1, 30)], st),
            array_type(vec![rng.range(1, 20)], BIT),
            scalar_type(*rng.pick(&ALL_ST)),
        ]),
        6 => vector_type(rng.range(1, 4), array_type(vec![rng.range(1, 70)], *rng.pick(&ALL_ST))),
        7 => named_tuple_type(vec![
            ("a".to_string(), array_type(vec![rng.range(1, 300)], UINT8)),
            ("b".to_string(), scalar_type(BIT)),
        ]),
        8 => {
            if rng.chance(1, 2) {
                array_type(vec![16], UINT8)
            } else {
                // several KiB: long enough for keystreams of neighbouring counters to meet if they are
                // laid out closer than they should be
                array_type(vec![rng.range(150, 1200)], UINT64)
            }
        }
        _ => array_type(vec![rng.range(1, 5), rng.range(1, 5)], st),
    }
}

/// byte buffers of the leaves of a value
fn leaf_bytes(v: &Value, out: &mut Vec<Vec<u8>>) {
    let sub: Option<Vec<Value>> = v
        .access(
            |b| {
                out.push(b.to_vec());
                Ok(None)
            },
            |vs| Ok(Some(vs.clone())),
        )
        .unwrap_or(None);
    if let Some(vs) = sub {
        for x in vs.iter() {
            leaf_bytes(x, out);
        }
    }
}

fn type_bits(t: &Type) -> u64 {
    ciphercore_base::data_types::get_size_in_bits(t.clone()).unwrap_or(0)
}

pub fn run(ctx: &mut Ctx) {
    let total = ctx.q(12000, 120000);
    ctx.cases("schedules", total, |ctx, idx| {
        // build a graph with 1-4 key inputs and a set of PRF / PermutationFromPRF nodes
        let c = create_context().unwrap();
        let g = c.create_graph().unwrap();
        let key_t = array_type(vec![128], BIT);
        let nkeys = ctx.rng.range(1, 4) as usize;
        let keys: Vec<Node> = (0..nkeys).map(|_| g.input(key_t.clone()).unwrap()).collect();
        let key_vals: Vec<Value> = (0..nkeys)
            .map(|i| {
                if i > 0 && ctx.rng.chance(1, 6) {
                    // a key that differs in one bit from key 0
                    let mut b = vec![0u8; 16];
                    b[ctx.rng.usize(16)] = 1 << ctx.rng.below(8);
                    Value::from_bytes(b)
                } else if i == 0 && ctx.rng.chance(1, 6) {
                    Value::from_bytes(vec![0u8; 16])
                } else {
                    Value::from_bytes(ctx.rng.bytes(16))
                }
            })
            .collect();
        let n_nodes = ctx.rng.range(6, 40) as usize;
        let mut prf_nodes: Vec<(Node, usize, u64, String, Option<u64>, Type)> = vec![];
        let mut ivs: Vec<u64> = (0..4)
            .map(|_| match ctx.rng.below(4) {
                0 => ctx.rng.below(4),
                1 => u64::MAX - ctx.rng.below(3),
                _ => ctx.rng.next_u64(),
            })
            .collect();
        if ctx.rng.chance(1, 2) {
            // neighbouring counters
            ivs[1] = ivs[0].wrapping_add(1);
            ivs[2] = ivs[0].wrapping_add(ctx.rng.range(2, 5));
        }
        let types: Vec<Type> = (0..3).map(|_| rand_out_type(&mut ctx.rng)).collect();
        for _ in 0..n_nodes {
            let k = ctx.rng.usize(nkeys);
            let iv = *ctx.rng.pick(&ivs);
            if ctx.rng.chance(1, 4) {
                let n = ctx.rng.range(1, 12);
                if let Ok(node) = keys[k].permutation_from_prf(iv, n) {
                    prf_nodes.push((node, k, iv, format!("perm{}", n), Some(n), array_type(vec![n], UINT64)));
                }
            } else {
                let t = ctx.rng.pick(&types).clone();
                if let Ok(node) = keys[k].prf(iv, t.clone()) {
                    prf_nodes.push((node, k, iv, format!("{}", t), None, t));
                }
            }
        }
        if prf_nodes.is_empty() {
            return;
        }
        let last = prf_nodes.last().unwrap().0.clone();
        last.set_as_output().unwrap();
        g.finalize().unwrap();
        g.set_as_main().unwrap();
        c.finalize().unwrap();
        // three evaluator instances, a random schedule of 20-200 calls
        let mut evals: Vec<SimpleEvaluator> = (0..3)
            .map(|_| SimpleEvaluator::new(Some(ctx.rng.seed16())).unwrap())
            .collect();
        let n_calls = ctx.rng.range(20, 200);
        let mut model: HashMap<(Vec<u8>, u64, String), Value> = HashMap::new();
        for _ in 0..n_calls {
            let (node, k, iv, ty, perm_n, t) = ctx.rng.pick(&prf_nodes).clone();
            let e = ctx.rng.usize(3);
            let kv = key_vals[k].clone();
            let kb = kv.access_bytes(|b| Ok(b.to_vec())).unwrap();
            let ev = &mut evals[e];
            let r = guard(|| ev.evaluate_node(node.clone(), vec![kv.clone()]));
            ctx.count("prf_calls", 1);
            let v = match r {
                Ok(Ok(v)) => v,
                Ok(Err(e)) => {
                    ctx.violation(
                        "C15|prf_error",
                        json!({"what": format!("PRF evaluation failed: {}", e), "type": ty, "iv": iv}),
                    );
                    continue;
                }
                Err(p) => {
                    ctx.violation(&format!("C15|panic|{}", p.site), json!({"what": p.message, "type": ty}));
                    continue;
                }
            };
            // domain
            match perm_n {
                Some(n) => {
                    ctx.count("permutations_checked", 1);
                    if !is_perm(&v, n) {
                        ctx.violation(
                            "C15|not_a_permutation|PermutationFromPRF",
                            json!({"what": "PermutationFromPRF output is not a permutation", "n": n,
                                   "value": value_json(&v)}),
                        );
                    }
                }
                None => match layout_check(&v, &t) {
                    Ok(0) => {}
                    Ok(_) => ctx.violation(
                        "C15|stray_bits|PRF",
                        json!({"what": "unused bits of a PRF output are not zero", "type": ty, "value": value_json(&v)}),
                    ),
                    Err(e) => ctx.violation("C15|layout|PRF", json!({"what": e, "type": ty})),
                },
            }
            // purity
            let key = (kb.clone(), iv, ty.clone());
            match model.get(&key) {
                Some(first) => {
                    ctx.count("repeat_observations", 1);
                    if *first != v {
                        ctx.violation(
                            "C15|prf_not_pure",
                            json!({"what": "the same (key, counter, type) evaluated twice gave different values",
                                   "type": ty, "iv": iv, "evaluator_instance": e,
                                   "first": value_json(first), "now": value_json(&v)}),
                        );
                    }
                }
                None => {
                    model.insert(key, v.clone());
                }
            }
        }
        // different keys / counters must not give equal wide answers
        let mut by_type: HashMap<String, Vec<(&(Vec<u8>, u64, String), &Value)>> = HashMap::new();
        for (k, v) in model.iter() {
            by_type.entry(k.2.clone()).or_default().push((k, v));
        }
        for (ty, lst) in by_type.iter() {
            if ty.starts_with("perm") {
                continue;
            }
            let bits = {
                let t = prf_nodes.iter().find(|x| x.3 == *ty).map(|x| x.5.clone()).unwrap();
                type_bits(&t)
            };
            if bits < 128 {
                continue;
            }
            for i in 0..lst.len() {
                for j in i + 1..lst.len() {
                    ctx.count("distinctness_pairs", 1);
                    if lst[i].1 == lst[j].1 {
                        ctx.violation(
                            "C15|collision",
                            json!({"what": "different (key, counter) pairs produced the same >=128-bit PRF output",
                                   "type": ty, "a": format!("key {} iv {}", hex(&lst[i].0 .0), lst[i].0 .1),
                                   "b": format!("key {} iv {}", hex(&lst[j].0 .0), lst[j].0 .1)}),
                        );
                    }
                }
            }
        }
        // unrelated values: no 16-byte window of one output occurs in another output (or twice in the
        // same one) - with 128 random bits per window a repeat is a relation, not chance
        {
            let mut windows: HashMap<[u8; 16], (usize, usize)> = HashMap::new();
            let entries: Vec<(&(Vec<u8>, u64, String), &Value)> =
                model.iter().filter(|(k, _)| !k.2.starts_with("perm")).collect();
            let mut reported = false;
            for (ei, (k, v)) in entries.iter().enumerate() {
                let mut leaves: Vec<Vec<u8>> = vec![];
                leaf_bytes(v, &mut leaves);
                for leaf in leaves.iter() {
                    if leaf.len() < 16 {
                        continue;
                    }
                    for off in 0..=(leaf.len() - 16) {
                        let w: [u8; 16] = leaf[off..off + 16].try_into().unwrap();
                        ctx.count("stream_windows_compared", 1);
                        if let Some((ej, off2)) = windows.get(&w) {
                            let other = entries[*ej].0;
                            if *ej != ei && other.0 == k.0 && other.1 == k.1 {
                                // same key and counter, another output type: the same keystream, by design
                                ctx.count("same_stream_windows", 1);
                            } else if !reported {
                                reported = true;
                                let other = entries[*ej].0;
                                ctx.violation(
                                    if *ej == ei { "C15|stream_repeats" } else { "C15|related_outputs" },
                                    json!({"what": "the same 16 bytes occur in the PRF outputs of two different (key, counter, type) triples: the values are related",
                                           "a": format!("key {} iv {} type {} offset {}", hex(&other.0), other.1, other.2, off2),
                                           "b": format!("key {} iv {} type {} offset {}", hex(&k.0), k.1, k.2, off),
                                           "bytes": hex(&w)}),
                                );
                            }
                        } else {
                            windows.insert(w, (ei, off));
                        }
                    }
                }
            }
        }
        ctx.case_done(mix(&[idx, n_calls, nkeys as u64, fnv(format!("{:?}", ivs).as_bytes())]), model.len() >= 2);
        if idx < 32 {
            ctx.sample(json!({"keys": nkeys, "prf_nodes": prf_nodes.len(), "calls": n_calls,
                              "types": types.iter().map(|t| format!("{}", t)).collect::<Vec<_>>(), "ivs": ivs}));
        }
    });

    // PRNG replay, range, layout
    let total = ctx.q(9000, 90000);
    ctx.cases("prng", total, |ctx, idx| {
        let seed = ctx.rng.seed16();
        let n_ops = ctx.rng.range(5, 60);
        let script: Vec<(u64, u64, Type)> = (0..n_ops)
            .map(|_| {
                let kind = ctx.rng.below(3);
                let m = match ctx.rng.below(6) {
                    0 => ctx.rng.range(1, 10),
                    1 => (1u64 << 63) + 1,
                    2 => 3u64 << 62,
                    3 => u64::MAX,
                    4 => (1u64 << ctx.rng.range(1, 63)) + ctx.rng.below(3),
                    _ => ctx.rng.next_u64().max(1),
                };
                (kind, m, rand_out_type(&mut ctx.rng))
            })
            .collect();
        let run_script = |seed: [u8; 16]| -> Result<Vec<(Value, u64)>, String> {
            let mut prng = PRNG::new(Some(seed)).map_err(|e| format!("{}", e))?;
            let mut out = vec![];
            for (kind, m, t) in script.iter() {
                match kind {
                    0 => {
                        let b = prng.get_random_bytes((*m % 700) as usize).map_err(|e| format!("{}", e))?;
                        out.push((Value::from_bytes(b), 0));
                    }
                    1 => {
                        let v = prng.get_random_value(t.clone()).map_err(|e| format!("{}", e))?;
                        out.push((v, 0));
                    }
                    _ => {
                        let r = prng.get_random_in_range(Some(*m)).map_err(|e| format!("{}", e))?;
                        out.push((Value::from_bytes(vec![]), r));
                    }
                }
            }
            Ok(out)
        };
        let a = guard(|| run_script(seed));
        let b = guard(|| run_script(seed));
        match (a, b) {
            (Ok(Ok(a)), Ok(Ok(b))) => {
                ctx.count("prng_replays", 1);
                if a != b {
                    ctx.violation("C15|prng_replay", json!({"what": "PRNG::new(Some(seed)) does not replay"}));
                }
                for ((v, r), (kind, m, t)) in a.iter().zip(script.iter()) {
                    match kind {
                        1 => {
                            ctx.count("prng_values_checked", 1);
                            match layout_check(v, t) {
                                Ok(0) => {}
                                Ok(_) => ctx.violation(
                                    "C15|stray_bits|PRNG",
                                    json!({"what": "unused bits of a random value are not zero", "type": format!("{}", t)}),
                                ),
                                Err(e) => ctx.violation("C15|layout|PRNG", json!({"what": e})),
                            }
                        }
                        2 => {
                            ctx.count("range_draws_checked", 1);
                            if *r >= *m {
                                ctx.violation(
                                    "C15|out_of_range",
                                    json!({"what": format!("get_random_in_range({}) returned {}", m, r)}),
                                );
                            }
                        }
                        _ => {}
                    }
                }
            }
            (Ok(Err(e)), _) | (_, Ok(Err(e))) => ctx.violation("C15|prng_error", json!({"what": e})),
            (Err(p), _) | (_, Err(p)) => {
                ctx.violation(&format!("C15|panic|{}", p.site), json!({"what": p.message}))
            }
        }
        ctx.case_done(mix(&[idx, n_ops, 77]), true);
    });

    // Random / RandomPermutation nodes through the evaluator: domain + replay by seed
    let total = ctx.q(6000, 60000);
    ctx.cases("random_nodes", total, |ctx, idx| {
        let c = create_context().unwrap();
        let g = c.create_graph().unwrap();
        let t = rand_out_type(&mut ctx.rng);
        let n = ctx.rng.range(1, 12);
        let r1 = g.random(t.clone()).unwrap();
        let r2 = g.random_permutation(n).unwrap();
        let o = g.create_tuple(vec![r1, r2]).unwrap();
        o.set_as_output().unwrap();
        g.finalize().unwrap();
        g.set_as_main().unwrap();
        c.finalize().unwrap();
        let seed = ctx.rng.seed16();
        let ev = |s: [u8; 16]| {
            let c2 = c.clone();
            guard(move || {
                let mut e = SimpleEvaluator::new(Some(s))?;
                e.evaluate_context(c2, vec![])
            })
        };
        match (ev(seed), ev(seed)) {
            (Ok(Ok(a)), Ok(Ok(b))) => {
                ctx.count("random_node_evals", 2);
                if a != b {
                    ctx.violation("C15|evaluator_replay", json!({"what": "same evaluator seed, different Random outputs"}));
                }
                let parts = a.to_vector().unwrap();
                match layout_check(&parts[0], &t) {
                    Ok(0) => {}
                    Ok(_) => ctx.violation("C15|stray_bits|Random", json!({"what": "stray bits", "type": format!("{}", t)})),
                    Err(e) => ctx.violation("C15|layout|Random", json!({"what": e})),
                }
                if !is_perm(&parts[1], n) {
                    ctx.violation(
                        "C15|not_a_permutation|RandomPermutation",
                        json!({"what": "RandomPermutation output is not a permutation", "n": n}),
                    );
                }
            }
            (Ok(Err(e)), _) | (_, Ok(Err(e))) => {
                ctx.violation("C15|random_node_error", json!({"what": format!("{}", e)}))
            }
            (Err(p), _) | (_, Err(p)) => {
                ctx.violation(&format!("C15|panic|{}", p.site), json!({"what": p.message}))
            }
        }
        ctx.case_done(mix(&[idx, n, 78]), true);
    });

    // statistics
    let mut hist: BTreeMap<String, Vec<u64>> = BTreeMap::new();
    let blocks = ctx.q(1200u64, 12000);
    let moduli: Vec<u64> = vec![
        (1u64 << 63) + 1,
        3u64 << 62,
        u64::MAX,
        (1u64 << 63) - 1,
        (1u64 << 63) + (1u64 << 62) + 12345,
        6,
        1000,
    ];
    ctx.set_extra("moduli", json!(moduli.iter().map(|m| format!("{}", m)).collect::<Vec<_>>()));
    ctx.cases("stats", blocks, |ctx, _idx| {
        // PRNG bytes and bounded draws
        let mut prng = PRNG::new(Some(ctx.rng.seed16())).unwrap();
        let bytes = prng.get_random_bytes(2048).unwrap();
        let h = hist.entry("bytes.prng".into()).or_insert_with(|| vec![0; 256]);
        for b in bytes {
            h[b as usize] += 1;
        }
        for (mi, m) in moduli.iter().enumerate() {
            for _ in 0..300 {
                let r = prng.get_random_in_range(Some(*m)).unwrap();
                ctx.count("stat_range_draws", 1);
                if *m <= 1000 {
                    let h = hist.entry(format!("range.small.{}", mi)).or_insert_with(|| vec![0; *m as usize]);
                    if (r as usize) < h.len() {
                        h[r as usize] += 1;
                    }
                } else {
                    let cell = ((r as u128 * 3) / *m as u128) as usize;
                    let h = hist.entry(format!("range.thirds.{}", mi)).or_insert_with(|| vec![0; 3]);
                    h[cell.min(2)] += 1;
                }
            }
        }
        // PRF bytes and permutations through the evaluator
        let c = create_context().unwrap();
        let g = c.create_graph().unwrap();
        let key = g.input(array_type(vec![128], BIT)).unwrap();
        let iv0 = ctx.rng.next_u64();
        let byte_node = key.prf(iv0, array_type(vec![256], UINT8)).unwrap();
        let perm_nodes: Vec<(u64, Vec<Node>)> = (2..=8u64)
            .map(|n| (n, (0..24).map(|j| key.permutation_from_prf(iv0.wrapping_add(j), n).unwrap()).collect()))
            .collect();
        let rperm: Vec<(u64, Node)> = (2..=8u64).map(|n| (n, g.random_permutation(n).unwrap())).collect();
        byte_node.set_as_output().unwrap();
        g.finalize().unwrap();
        g.set_as_main().unwrap();
        c.finalize().unwrap();
        let mut ev = SimpleEvaluator::new(Some(ctx.rng.seed16())).unwrap();
        for _ in 0..4 {
            let kv = Value::from_bytes(ctx.rng.bytes(16));
            let v = ev.evaluate_node(byte_node.clone(), vec![kv.clone()]).unwrap();
            let bytes = v.access_bytes(|b| Ok(b.to_vec())).unwrap();
            let h = hist.entry("bytes.prf".into()).or_insert_with(|| vec![0; 256]);
            for b in bytes {
                h[b as usize] += 1;
            }
            for (n, nodes) in perm_nodes.iter() {
                for node in nodes.iter() {
                    let v = ev.evaluate_node(node.clone(), vec![kv.clone()]).unwrap();
                    let xs = ints_of_value(&v, &array_type(vec![*n], UINT64)).unwrap();
                    ctx.count("stat_permutations", 1);
                    if *n <= 5 {
                        let f: usize = (1..=*n as usize).product();
                        let h = hist.entry(format!("perm.prf.{}", n)).or_insert_with(|| vec![0; f]);
                        h[lehmer(&xs)] += 1;
                    } else {
                        let h = hist
                            .entry(format!("permpos.prf.{}", n))
                            .or_insert_with(|| vec![0; (n * n) as usize]);
                        for (pos, x) in xs.iter().enumerate() {
                            h[pos * *n as usize + *x as usize] += 1;
                        }
                    }
                }
            }
            for (n, node) in rperm.iter() {
                for _ in 0..24 {
                    let v = ev.evaluate_node(node.clone(), vec![]).unwrap();
                    let xs = ints_of_value(&v, &array_type(vec![*n], UINT64)).unwrap();
                    ctx.count("stat_permutations", 1);
                    if *n <= 5 {
                        let f: usize = (1..=*n as usize).product();
                        let h = hist.entry(format!("perm.random.{}", n)).or_insert_with(|| vec![0; f]);
                        h[lehmer(&xs)] += 1;
                    } else {
                        let h = hist
                            .entry(format!("permpos.random.{}", n))
                            .or_insert_with(|| vec![0; (n * n) as usize]);
                        for (pos, x) in xs.iter().enumerate() {
                            h[pos * *n as usize + *x as usize] += 1;
                        }
                    }
                }
            }
        }
    });
    ctx.set_extra("hist", json!(hist));
}
