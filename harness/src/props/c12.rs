//! C12 — contexts survive serialization; malformed input is an error, not a crash.

use super::c09::gen_any;
use super::c11::walk;
use super::mpc_common::{compile, rand_config, Compiled};
use crate::ctx::{guard, Ctx};
use crate::gen::custom::gen_custom;
use crate::gen::inl::gen_inl;
use crate::gen::iter::{gen_iter, CLASSES};
use crate::gen::mpc::gen_mpc_opts;
use crate::rng::{fnv, Rng};
use crate::val::*;
use ciphercore_base::custom_ops::run_instantiation_pass;
use ciphercore_base::data_types::Type;
use ciphercore_base::data_values::Value;
use ciphercore_base::evaluators::simple_evaluator::SimpleEvaluator;
use ciphercore_base::evaluators::Evaluator;
use ciphercore_base::graphs::{Context, NodeAnnotation, Operation};
use ciphercore_base::inline::inline_ops::inline_operations;
use ciphercore_base::optimizer::optimize::optimize_context;
use serde_json::{json, Value as J};

fn main_input_types(c: &Context) -> Vec<Type> {
    c.get_main_graph()
        .map(|g| {
            g.get_nodes()
                .iter()
                .filter_map(|n| if let Operation::Input(t) = n.get_operation() { Some(t) } else { None })
                .collect()
        })
        .unwrap_or_default()
}

/// a context from one of the producers, with a label
fn produce(ctx: &mut Ctx, kind: u64) -> Option<(Context, String)> {
    match kind % 8 {
        0 => {
            let p = gen_any(ctx)?;
            if !p.add_panics.is_empty() {
                return None;
            }
            // decorate with names and annotations of every kind
            Some((p.ctx, "plain".into()))
        }
        1 => {
            // an UNFINALIZED context with names and annotations (serialization must cope with it too)
            let c = ciphercore_base::graphs::create_context().ok()?;
            let g = c.create_graph().ok()?;
            let t = ciphercore_base::data_types::array_type(vec![2, 3], ciphercore_base::data_types::INT128);
            let a = g.input(t.clone()).ok()?;
            a.set_name("first").ok()?;
            let k = g.constant(t.clone(), rand_value(&mut ctx.rng, &t, Fill::Extreme)).ok()?;
            let s = a.add(k).ok()?;
            s.add_annotation(NodeAnnotation::Private).ok()?;
            let n = s.nop().ok()?;
            n.add_annotation(NodeAnnotation::Send(0, 2)).ok()?;
            n.add_annotation(NodeAnnotation::AssociativeOperation).ok()?;
            g.set_name("graph with spaces \"and quotes\"").ok()?;
            g.add_annotation(ciphercore_base::graphs::GraphAnnotation::SmallState).ok()?;
            if ctx.rng.bool() {
                n.set_as_output().ok()?;
                g.finalize().ok()?;
                let g2 = c.create_graph().ok()?;
                let i = g2.input(t).ok()?;
                g2.call(g, vec![i]).ok()?.set_as_output().ok()?;
            }
            Some((c, "unfinalized+names+annotations".into()))
        }
        2 => gen_custom(&mut ctx.rng, None).map(|p| (p.ctx, "custom".into())),
        3 => {
            let p = gen_custom(&mut ctx.rng, None)?;
            let c = guard(|| run_instantiation_pass(p.ctx.clone())).ok()?.ok()?.get_context();
            Some((c, "instantiated".into()))
        }
        4 => {
            let class = CLASSES[ctx.rng.usize(5)];
            let len = ctx.rng.range(0, 12);
            let p = gen_iter(&mut ctx.rng, class, len)?;
            let inst = guard(|| run_instantiation_pass(p.ctx.clone())).ok()?.ok()?.get_context();
            let (cfg, name) = super::mpc_common::inline_modes()[ctx.rng.usize(3)].clone();
            let c = guard(|| inline_operations(&inst, cfg)).ok()?.ok()?.get_context();
            Some((c, format!("inlined:{}", name)))
        }
        5 | 6 => {
            let p = gen_mpc_opts(&mut ctx.rng, 3, 9, true);
            let cfg = rand_config(&mut ctx.rng, p.input_types.len());
            match compile(&p.ctx, &cfg, ctx.rng.seed16()) {
                Compiled::Ok(c) => Some((c, "compiled".into())),
                _ => None,
            }
        }
        _ => {
            let p = gen_inl(&mut ctx.rng);
            let seed = ctx.rng.seed16();
            let c = guard(|| optimize_context(&p.ctx, SimpleEvaluator::new(Some(seed)).unwrap())).ok()?.ok()?.get_context();
            Some((c, "optimised".into()))
        }
    }
}

fn collect_paths(v: &J, path: Vec<String>, out: &mut Vec<Vec<String>>, ints: &mut Vec<Vec<String>>) {
    out.push(path.clone());
    // numeric parameters of custom operations (iteration counts, precisions) are left alone: a huge
    // but well-formed parameter is not corruption, it just asks for an enormous instantiation
    if v.is_u64() && !path.iter().any(|k| k == "Custom") {
        ints.push(path.clone());
    }
    match v {
        J::Array(a) => {
            for (i, x) in a.iter().enumerate().take(40) {
                let mut p = path.clone();
                p.push(format!("{}", i));
                collect_paths(x, p, out, ints);
            }
        }
        J::Object(o) => {
            for (k, x) in o.iter() {
                let mut p = path.clone();
                p.push(k.clone());
                collect_paths(x, p, out, ints);
            }
        }
        _ => {}
    }
}

fn get_mut<'a>(v: &'a mut J, path: &[String]) -> Option<&'a mut J> {
    let mut cur = v;
    for p in path {
        cur = match cur {
            J::Array(a) => a.get_mut(p.parse::<usize>().ok()?)?,
            J::Object(o) => o.get_mut(p)?,
            _ => return None,
        };
    }
    Some(cur)
}

fn weird(rng: &mut Rng) -> J {
    match rng.below(12) {
        0 => J::Null,
        1 => json!(-1),
        2 => json!(18446744073709551615u64),
        3 => json!(1u64 << 40),
        4 => json!("x"),
        5 => json!([]),
        6 => json!({}),
        7 => json!(true),
        8 => json!(1.5),
        9 => json!([[1, 2], 3]),
        10 => json!(99),
        _ => json!({"Bogus": [1]}),
    }
}

/// one mutated text; returns (text bytes, mutation class)
fn mutate(rng: &mut Rng, outer_text: &str, outer: &J, inner: &J, paths: &[Vec<String>], int_paths: &[Vec<String>]) -> (Vec<u8>, &'static str) {
    let rebuild = |inner: &J, version: J| -> Vec<u8> {
        let mut o = outer.clone();
        o["data"] = J::String(serde_json::to_string(inner).unwrap());
        if !version.is_null() {
            o["version"] = version;
        }
        serde_json::to_vec(&o).unwrap()
    };
    match rng.below(17) {
        16 => {
            // change ONE version number, at any nesting level (the envelopes of constants are
            // nested, escaped JSON strings inside the payload)
            let bytes = outer_text.as_bytes();
            let mut hits = vec![];
            let pat = b"version";
            let mut i = 0;
            while i + pat.len() < bytes.len() {
                if &bytes[i..i + pat.len()] == pat {
                    // skip escaped quotes and the colon, expect the digit 2
                    let mut j = i + pat.len();
                    while j < bytes.len() && (bytes[j] == b'\\' || bytes[j] == b'"' || bytes[j] == b':') {
                        j += 1;
                    }
                    if j < bytes.len() && bytes[j] == b'2' && (j + 1 >= bytes.len() || !bytes[j + 1].is_ascii_digit()) {
                        hits.push(j);
                    }
                }
                i += 1;
            }
            if hits.is_empty() {
                return (outer_text.as_bytes().to_vec(), "noop");
            }
            let j = hits[rng.usize(hits.len())];
            let mut b = bytes.to_vec();
            b[j] = *rng.pick(&[b'3', b'7', b'9', b'0', b'1']);
            (b, "nested_version")
        }
        0 => {
            let cut = rng.usize(outer_text.len().max(1));
            (outer_text.as_bytes()[..cut].to_vec(), "truncate_outer")
        }
        1 => {
            // truncate the INNER payload, keep the envelope well-formed
            let s = serde_json::to_string(inner).unwrap();
            let cut = rng.usize(s.len().max(1));
            let mut o = outer.clone();
            o["data"] = J::String(s[..cut].to_string());
            (serde_json::to_vec(&o).unwrap(), "truncate_inner")
        }
        2 => {
            let v = match rng.below(6) {
                0 => json!(0),
                1 => json!(1),
                2 => json!(3),
                3 => json!(999999),
                4 => json!("2"),
                _ => json!(-2),
            };
            (rebuild(inner, v), "version")
        }
        3 => {
            let mut o = outer.clone();
            o["data"] = match rng.below(5) {
                0 => json!(""),
                1 => json!("null"),
                2 => json!("{}"),
                3 => json!(17),
                _ => json!("[1,2,3]"),
            };
            (serde_json::to_vec(&o).unwrap(), "inner_not_a_context")
        }
        4..=9 => {
            // replace the value at a random path of the inner payload
            let mut m = inner.clone();
            let p = &paths[rng.usize(paths.len())];
            let mut w = weird(rng);
            // huge numbers inside an operation (array dimensions, repeat counts, custom-operation
            // parameters) are well-formed requests for enormous objects whose type inference can
            // take unbounded time; they are not corruption of the container format
            if w.is_number() && p.iter().any(|k| k == "operation") {
                w = if rng.bool() { json!("x") } else { json!(7) };
            }
            if let Some(slot) = get_mut(&mut m, p) {
                *slot = w;
            }
            (rebuild(&m, J::Null), "replace_value")
        }
        10..=12 => {
            // perturb an integer (ids in dependencies, outputs, name and annotation tables)
            let mut m = inner.clone();
            if int_paths.is_empty() {
                return (rebuild(inner, J::Null), "noop");
            }
            let p = &int_paths[rng.usize(int_paths.len())];
            if let Some(slot) = get_mut(&mut m, p) {
                let old = slot.as_u64().unwrap_or(0);
                let in_op = p.iter().any(|k| k == "operation");
                *slot = match if in_op { rng.below(2) * 3 } else { rng.below(6) } {
                    0 => json!(old + 1),
                    1 => json!(old + 1000),
                    2 => json!(u64::MAX),
                    3 => json!(old.wrapping_sub(1)),
                    4 => json!(-1),
                    _ => json!(old * 2 + 7),
                };
            }
            (rebuild(&m, J::Null), "perturb_id")
        }
        13 => {
            // remove a field / element
            let mut m = inner.clone();
            let p = &paths[rng.usize(paths.len())];
            if let Some((last, parent)) = p.split_last() {
                if let Some(slot) = get_mut(&mut m, parent) {
                    match slot {
                        J::Object(o) => {
                            o.remove(last);
                        }
                        J::Array(a) => {
                            if let Ok(i) = last.parse::<usize>() {
                                if i < a.len() {
                                    a.remove(i);
                                }
                            }
                        }
                        _ => {}
                    }
                }
            }
            (rebuild(&m, J::Null), "remove")
        }
        14 => {
            // duplicate an element of an array (duplicated names / annotations / nodes)
            let mut m = inner.clone();
            let p = &paths[rng.usize(paths.len())];
            if let Some(slot) = get_mut(&mut m, p) {
                if let J::Array(a) = slot {
                    if !a.is_empty() {
                        let x = a[rng.usize(a.len())].clone();
                        a.push(x);
                    }
                }
            }
            (rebuild(&m, J::Null), "duplicate")
        }
        _ => {
            // garbage bytes / non-UTF-8 / deep nesting
            match rng.below(3) {
                0 => {
                    let mut b = outer_text.as_bytes().to_vec();
                    let i = rng.usize(b.len().max(1));
                    b[i] = 0xff;
                    (b, "non_utf8")
                }
                1 => {
                    let n = rng.usize(200);
                    (rng.bytes(n), "garbage")
                }
                _ => {
                    let d = rng.range(100, 5000) as usize;
                    (format!("{}{}", "[".repeat(d), "]".repeat(d)).into_bytes(), "deep_nesting")
                }
            }
        }
    }
}

fn eval_ctx(c: &Context, inputs: Vec<Value>, seed: [u8; 16]) -> Option<Result<Value, String>> {
    let c = c.clone();
    match guard(move || {
        let mut e = SimpleEvaluator::new(Some(seed))?;
        e.preprocess(&c)?;
        e.evaluate_context(c, inputs)
    }) {
        Ok(Ok(v)) => Some(Ok(v)),
        Ok(Err(e)) => Some(Err(e.to_string().lines().next().unwrap_or("").to_string())),
        Err(_) => None,
    }
}

pub fn run(ctx: &mut Ctx) {
    let total = ctx.q(4000, 40000);
    let n_mut = ctx.q(150usize, 600);
    ctx.cases("roundtrip", total, |ctx, idx| {
        let (c, label) = match produce(ctx, idx) {
            Some(x) => x,
            None => {
                ctx.count("producer_gave_nothing", 1);
                return;
            }
        };
        ctx.count(&format!("producer.{}", label.split(':').next().unwrap_or("")), 1);
        let text = match guard(|| serde_json::to_string(&c)) {
            Ok(Ok(s)) => s,
            Ok(Err(e)) => {
                ctx.violation("C12|serialize_error", json!({"what": format!("{}", e), "producer": label}));
                return;
            }
            Err(p) => {
                ctx.violation(&format!("C12|serialize_panic|{}", p.site), json!({"what": p.message, "producer": label}));
                return;
            }
        };
        ctx.count("round_trips", 1);
        ctx.count("serialized_bytes", text.len() as u64);
        // stability
        if let Ok(Ok(t2)) = guard(|| serde_json::to_string(&c)) {
            if t2 != text {
                ctx.violation("C12|unstable_text", json!({"what": "serializing the same context twice gives different text", "producer": label}));
            }
        }
        let back = guard(|| serde_json::from_str::<Context>(&text));
        let c2 = match back {
            Ok(Ok(c2)) => c2,
            Ok(Err(e)) => {
                ctx.violation(
                    &format!("C12|reload_rejected|{}", label.split(':').next().unwrap_or("")),
                    json!({"what": format!("own output rejected: {}", e.to_string().lines().next().unwrap_or("")), "producer": label,
                           "text": text.chars().take(3000).collect::<String>()}),
                );
                return;
            }
            Err(p) => {
                ctx.violation(&format!("C12|deserialize_panic|{}", p.site), json!({"what": p.message, "producer": label}));
                return;
            }
        };
        if !c.deep_equal(c2.clone()) {
            ctx.violation(
                &format!("C12|not_deep_equal|{}", label.split(':').next().unwrap_or("")),
                json!({"what": "reloaded context is not deep_equal to the original", "producer": label}),
            );
        }
        if let Ok(Ok(t3)) = guard(|| serde_json::to_string(&c2)) {
            if t3 != text {
                ctx.violation("C12|text_changes_after_reload", json!({"what": "text of the reloaded context differs", "producer": label}));
            }
        }
        if let Err(e) = walk(&c2.verif_dump()) {
            ctx.violation("C12|reloaded_ill_formed", json!({"what": e, "producer": label}));
        }
        // evaluation equality (finalized contexts only)
        if c.get_main_graph().is_ok() && c.check_finalized().is_ok() {
            let its = main_input_types(&c);
            let inputs: Vec<Value> = its.iter().map(|t| rand_value(&mut ctx.rng, t, Fill::Uniform)).collect();
            let seed = ctx.rng.seed16();
            let has_custom = c.get_graphs().iter().any(|g| g.get_nodes().iter().any(|n| matches!(n.get_operation(), Operation::Custom(_))));
            if !has_custom {
                if let (Some(a), Some(b)) = (eval_ctx(&c, inputs.clone(), seed), eval_ctx(&c2, inputs, seed)) {
                    ctx.count("evaluations_compared", 1);
                    if a != b {
                        ctx.violation(
                            &format!("C12|evaluates_differently|{}", label.split(':').next().unwrap_or("")),
                            json!({"what": "reloaded context evaluates differently (same inputs, same evaluator seed)", "producer": label}),
                        );
                    }
                }
            }
        }
        // mutations of both layers
        let outer: J = serde_json::from_str(&text).unwrap();
        let inner: J = serde_json::from_str(outer["data"].as_str().unwrap_or("null")).unwrap_or(J::Null);
        let mut paths = vec![];
        let mut int_paths = vec![];
        collect_paths(&inner, vec![], &mut paths, &mut int_paths);
        // prefer the small tables (names, annotations, main graph) as well as nodes
        let budget = if text.len() > 200_000 { n_mut / 6 } else if text.len() > 40_000 { n_mut / 2 } else { n_mut };
        for _ in 0..budget {
            let (bytes, class) = mutate(&mut ctx.rng, &text, &outer, &inner, &paths, &int_paths);
            ctx.count("mutated_texts", 1);
            ctx.count(&format!("mutation.{}", class), 1);
            let r = guard(|| serde_json::from_slice::<Context>(&bytes));
            match r {
                Ok(Err(_)) => ctx.count("mutants_rejected", 1),
                Ok(Ok(m)) => {
                    ctx.count("mutants_accepted", 1);
                    if class == "version" || class == "nested_version" {
                        ctx.violation(
                            &format!("C12|wrong_version_accepted|{}", class),
                            json!({"what": "a serialized context whose (outer or nested) version number was changed is accepted instead of rejected",
                                   "mutation": class, "producer": label,
                                   "text": String::from_utf8_lossy(&bytes).chars().take(600).collect::<String>()}),
                        );
                    }
                    if let Err(e) = walk(&m.verif_dump()) {
                        let kind = e.split(|ch: char| ch.is_ascii_digit() || ch == '(').next().unwrap_or("").trim().to_string();
                        ctx.violation(
                            &format!("C12|accepted_ill_formed|{}", kind),
                            json!({"what": format!("a corrupted text was accepted and yields an ill-formed context: {}", e),
                                   "mutation": class, "text": String::from_utf8_lossy(&bytes).chars().take(3000).collect::<String>()}),
                        );
                    }
                    for g in m.get_graphs() {
                        for n in g.get_nodes() {
                            if n.get_type().is_err() {
                                ctx.violation(
                                    "C12|accepted_untypable_node",
                                    json!({"what": "accepted context has a node without a valid type", "mutation": class}),
                                );
                            }
                        }
                    }
                }
                Err(p) => {
                    let msg: String = p.message.chars().take(60).collect();
                    ctx.violation(
                        &format!("C12|deserialize_panic|{}", p.site),
                        json!({"what": format!("deserialization panicked: {}", msg), "site": p.site, "mutation": class,
                               "producer": label, "text": String::from_utf8_lossy(&bytes).chars().take(4000).collect::<String>()}),
                    );
                }
            }
        }
        ctx.case_done(fnv(text.as_bytes()), text.len() > 300);
        if idx < 64 {
            ctx.sample(json!({"producer": label, "bytes": text.len(), "mutations": budget}));
        }
    });
}
