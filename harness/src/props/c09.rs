//! C09 — type inference is sound for evaluation; well-typed programs never crash.
//! Online type monitor on every node value + panic capture + error whitelist; executions are
//! also recorded for the offline NumPy model, which re-derives every node's type.

use super::c10::{record_execution, Recorder};
use crate::ctx::{guard, Ctx};
use crate::gen::builder::{context_hash, rand_array_type, Flavor, B};
use crate::mon::obs::Obs;
use crate::val::*;
use ciphercore_base::custom_ops::run_instantiation_pass;
use ciphercore_base::data_types::Type;
use ciphercore_base::data_values::Value;
use ciphercore_base::evaluators::Evaluator;
use ciphercore_base::graphs::{create_context, Context};
use serde_json::json;

/// operations whose evaluation may legitimately fail on the data (not on the types)
const DATA_DEPENDENT: [&str; 12] = [
    "VectorGet", "InversePermutation", "ApplyPermutation", "Gather", "CuckooToPermutation",
    "DecomposeSwitchingMap", "CuckooHash", "Assert", "Join", "JoinWithColumnMasks", "Sort", "SegmentCumSum",
];

pub struct AnyProg {
    pub ctx: Context,
    pub input_types: Vec<Type>,
    pub ops: Vec<String>,
    pub hash: u64,
    pub rejected: u64,
    pub add_panics: Vec<String>,
}

pub fn gen_any(ctx: &mut Ctx) -> Option<AnyProg> {
    let c = create_context().unwrap();
    let g = c.create_graph().unwrap();
    let mut add_panics = vec![];
    let mut b = B::new(g.clone(), &mut ctx.rng, Flavor::Any);
    b.allow_custom = false;
    let n_in = b.rng.range(1, 3);
    let base = *b.rng.pick(&ALL_ST);
    let mut input_types = vec![];
    for _ in 0..n_in {
        let st = if b.rng.chance(2, 3) { base } else { *b.rng.pick(&ALL_ST) };
        let t = rand_array_type(b.rng, st, 4, 3);
        input_types.push(t.clone());
        b.input(t);
    }
    let target = b.rng.range(3, 15);
    let mut tries = 0;
    while (b.ops.len() as u64) < target && tries < target * 5 {
        tries += 1;
        // every proposal runs under a guard: add_node must reject ill-fitting arguments with Err
        let r = guard(|| b.step_any());
        if let Err(p) = r {
            add_panics.push(format!("{} @ {}", p.message, p.site));
            break;
        }
    }
    let n_pool = b.pool.len();
    let out = b.pool[n_pool - 1 - b.rng.usize(n_pool.min(2))].clone();
    let ops = b.ops.clone();
    let rejected = b.rejected;
    drop(b);
    if !add_panics.is_empty() {
        return Some(AnyProg { ctx: c, input_types, ops, hash: 0, rejected, add_panics });
    }
    out.set_as_output().ok()?;
    g.finalize().ok()?;
    g.set_as_main().ok()?;
    c.finalize().ok()?;
    let hash = context_hash(&c);
    Some(AnyProg { ctx: c, input_types, ops, hash, rejected, add_panics })
}

/// custom operations given ill-fitting arguments: must be rejected with Err when the node is added
fn custom_bad_args(ctx: &mut Ctx) {
    use crate::gen::custom::{make_family_op, FAMILIES};
    use ciphercore_base::data_types::{array_type, named_tuple_type, scalar_type, tuple_type, vector_type, BIT, INT64, UINT64, UINT8};
    let total = ctx.q(50000, 500000);
    ctx.cases("custom_bad_args", total, |ctx, idx| {
        let fam = FAMILIES[(idx % FAMILIES.len() as u64) as usize];
        let c = create_context().unwrap();
        let g = c.create_graph().unwrap();
        let bits = array_type(vec![2, 8], BIT);
        let pool: Vec<Type> = vec![
            bits.clone(),
            scalar_type(BIT),
            scalar_type(INT64),
            array_type(vec![3], INT64),
            array_type(vec![3], UINT64),
            array_type(vec![2, 2], UINT8),
            tuple_type(vec![]),
            tuple_type(vec![bits.clone(), bits.clone()]),
            vector_type(2, bits.clone()),
            vector_type(0, scalar_type(INT64)),
            named_tuple_type(vec![("a".into(), array_type(vec![3], INT64)), ("b".into(), array_type(vec![3], UINT64))]),
            named_tuple_type(vec![("a".into(), tuple_type(vec![]))]),
            array_type(vec![3, 7], BIT),
            array_type(vec![1], BIT),
        ];
        let n_args = ctx.rng.range(0, 4) as usize;
        let ts: Vec<Type> = (0..n_args).map(|_| ctx.rng.pick(&pool).clone()).collect();
        let args: Vec<_> = ts.iter().map(|t| g.input(t.clone()).unwrap()).collect();
        let op = make_family_op(fam, ctx.rng.below(100));
        ctx.count("custom_op_calls_with_random_arguments", 1);
        let r = guard(|| g.custom_op(op, args));
        match r {
            Ok(Ok(_)) => ctx.count("custom_op_accepted", 1),
            Ok(Err(_)) => ctx.count("custom_op_rejected", 1),
            Err(p) => ctx.violation(
                &format!("C09|custom_op_panic|{}|{}", fam, p.site),
                json!({"what": format!("adding {} with arguments {:?} panicked instead of returning an error: {}",
                                       fam, ts.iter().map(|t| format!("{}", t)).collect::<Vec<_>>(), p.message)}),
            ),
        }
        ctx.case_done(crate::rng::mix(&[idx, 4242]), false);
    });
}

pub fn run(ctx: &mut Ctx) {
    custom_bad_args(ctx);
    let mut rec = Recorder::new(ctx, "c09");
    let total = ctx.q(300000, 3000000);
    ctx.cases("gany", total, |ctx, idx| {
        let prog = match gen_any(ctx) {
            Some(p) => p,
            None => {
                ctx.count("finalize_failed", 1);
                return;
            }
        };
        ctx.count("graphs", 1);
        ctx.count("proposals_rejected_by_add_node", prog.rejected);
        ctx.count("nodes_accepted", prog.ops.len() as u64);
        if let Some(p) = prog.add_panics.first() {
            let site = p.rsplit(" @ ").next().unwrap_or("").to_string();
            ctx.violation(
                &format!("C09|add_node_panic|{}", site),
                json!({"what": format!("adding a node panicked instead of returning an error: {}", p),
                       "ops_so_far": prog.ops}),
            );
            return;
        }
        let mut seen = std::collections::BTreeSet::new();
        for o in prog.ops.iter() {
            if seen.insert(o.clone()) {
                ctx.count(&format!("op.{}", o), 1);
            }
        }
        if super::mpc_common::max_node_bits(&prog.ctx) > super::mpc_common::GIANT_NODE_BITS {
            // accepted, but not evaluated: a node value of more than 16 MB (see max_node_bits)
            ctx.count("skipped_giant_node_program", 1);
            return;
        }
        let n_draws = ctx.q(2, 3);
        let mut evaluated = false;
        for d in 0..n_draws {
            let fill = if d == 0 { Fill::Uniform } else { pick_fill(&mut ctx.rng) };
            let inputs: Vec<Value> = prog.input_types.iter().map(|t| rand_value(&mut ctx.rng, t, fill)).collect();
            let mut obs = Obs::new(ctx.rng.seed16());
            obs.type_monitor = true;
            obs.track_last = true;
            let c = prog.ctx.clone();
            let ins = inputs.clone();
            let r = {
                let o = &mut obs;
                guard(move || {
                    o.preprocess(&c)?;
                    o.evaluate_context(c, ins)
                })
            };
            ctx.count("evaluations", 1);
            ctx.count("node_values_checked", obs.values_checked);
            ctx.count("stray_bit_arrays_seen", obs.stray_bits);
            // the unchanged tree never produces padding bits (0 of > 10^6 bit-array values observed),
            // so a value with non-zero padding bits is reported
            for o in obs.stray_ops.iter().take(1) {
                ctx.violation(
                    &format!("C09|stray_bits|{}", o),
                    json!({"what": format!("{} produced a bit array whose unused padding bits are not zero", o), "ops": prog.ops,
                           "context": serde_json::to_string(&prog.ctx).unwrap_or_default()}),
                );
            }
            for e in obs.type_errors.iter().take(2) {
                let opname = e.split("op ").nth(1).unwrap_or("?").split(' ').next().unwrap_or("?").to_string();
                ctx.violation(
                    &format!("C09|value_type_mismatch|{}", opname),
                    json!({"what": format!("a node value does not have its inferred type: {}", e), "ops": prog.ops,
                           "context": serde_json::to_string(&prog.ctx).unwrap_or_default()}),
                );
            }
            match r {
                Ok(Ok(_)) => {
                    evaluated = true;
                    ctx.count("evaluations_ok", 1);
                }
                Ok(Err(e)) => {
                    let op = obs.last_op.clone();
                    let msg = e.to_string().lines().next().unwrap_or("").to_string();
                    if DATA_DEPENDENT.contains(&op.as_str()) {
                        ctx.count(&format!("data_dependent_error.{}", op), 1);
                    } else {
                        ctx.violation(
                            &format!("C09|runtime_error_on_well_typed|{}", op),
                            json!({"what": format!("evaluation of an accepted graph failed at {}: {}", op, msg),
                                   "ops": prog.ops, "context": serde_json::to_string(&prog.ctx).unwrap_or_default(),
                                   "inputs": inputs.iter().map(value_json).collect::<Vec<_>>()}),
                        );
                    }
                }
                Err(p) => {
                    ctx.violation(
                        &format!("C09|eval_panic|{}|{}", obs.last_op, p.site),
                        json!({"what": format!("evaluation panicked at {}: {}", obs.last_op, p.message), "site": p.site,
                               "ops": prog.ops, "context": serde_json::to_string(&prog.ctx).unwrap_or_default(),
                               "inputs": inputs.iter().map(value_json).collect::<Vec<_>>()}),
                    );
                }
            }
        }
        // record one execution for the offline NumPy model (graphs without randomness only)
        let deterministic = !prog.ops.iter().any(|o| {
            ["Random", "RandomPermutation", "PRF", "PermutationFromPRF", "Call", "Iterate", "Print", "Assert",
             "CuckooToPermutation", "DecomposeSwitchingMap", "Sort", "SegmentCumSum"].contains(&o.as_str())
        });
        if deterministic && evaluated {
            let inputs: Vec<Value> = prog.input_types.iter().map(|t| rand_value(&mut ctx.rng, t, Fill::Extreme)).collect();
            let r = record_execution(ctx, &prog.ctx, &inputs, "");
            ctx.count("executions_recorded", 1);
            rec.write(&r);
        }
        ctx.case_done(prog.hash, evaluated && prog.ops.len() >= 3);
        if idx < 64 {
            ctx.sample(json!({"ops": prog.ops, "input_types": prog.input_types.iter().map(|t| format!("{}", t)).collect::<Vec<_>>(),
                              "rejected_proposals": prog.rejected}));
        }
        let _ = run_instantiation_pass;
    });
}
