//! C02 — three separate parties: each designated output party must end with the right result.
use super::c01::{run_mode, Mode};
use crate::ctx::Ctx;

pub fn run(ctx: &mut Ctx) {
    run_mode(ctx, Mode::Party);
}
