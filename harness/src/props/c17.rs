//! C17 — bit-level arithmetic helpers are exact: BinaryAdd, Mux, Clip2K, LongDivision.

use super::custom_common::*;
use crate::ctx::Ctx;
use crate::rng::{mix, Rng};
use crate::val::{decode, ints_of_value, mask, st_bits, value_of_ints, INT_ST};
use ciphercore_base::custom_ops::CustomOperation;
use ciphercore_base::data_types::{array_type, scalar_type, Type, BIT};
use ciphercore_base::ops::adder::BinaryAdd;
use ciphercore_base::ops::clip::Clip2K;
use ciphercore_base::ops::long_division::LongDivision;
use ciphercore_base::ops::multiplexer::Mux;
use serde_json::json;

fn bits_t(lead: &[u64], w: usize) -> Type {
    let mut s = lead.to_vec();
    s.push(w as u64);
    array_type(s, BIT)
}

fn adder_case(ctx: &mut Ctx, w: usize, overflow: bool, lead_a: &[u64], lead_b: &[u64], a: &[u128], b: &[u128], tag: &str) {
    let c = match custom_context(
        CustomOperation::new(BinaryAdd { overflow_bit: overflow }),
        &[bits_t(lead_a, w), bits_t(lead_b, w)],
    ) {
        Ok(c) => c,
        Err(e) => {
            ctx.violation("C17|BinaryAdd|build_failed", json!({"what": e, "w": w}));
            return;
        }
    };
    let out = match eval_instantiated(&c, None, vec![bits_value(a, w), bits_value(b, w)], ctx.rng.seed16()) {
        Ok(v) => v,
        Err(e) => {
            ctx.violation("C17|BinaryAdd|eval_failed", json!({"what": e, "w": w}));
            return;
        }
    };
    let r_shape = broadcast_shapes(lead_a, lead_b).unwrap();
    let count = r_shape.iter().product::<u64>() as usize;
    let (sum_v, ov_v) = if overflow {
        match out.to_vector() {
            Ok(p) if p.len() == 2 => (p[0].clone(), Some(p[1].clone())),
            _ => {
                ctx.violation("C17|BinaryAdd|result_shape", json!({"what": "overflow form is not a pair", "w": w}));
                return;
            }
        }
    } else {
        (out, None)
    };
    let sums = match nums_of_bits(&sum_v, count, w) {
        Some(s) => s,
        None => {
            ctx.violation("C17|BinaryAdd|result_shape", json!({"what": "sum has the wrong size", "w": w}));
            return;
        }
    };
    let ovs = match &ov_v {
        Some(v) => v.access(|b| Ok(decode(b, BIT, count)), |_| Ok(None)).ok().flatten(),
        None => None,
    };
    if overflow && ovs.is_none() {
        ctx.violation("C17|BinaryAdd|result_shape", json!({"what": "carry has the wrong size", "w": w}));
        return;
    }
    ctx.count("adder_pairs", count as u64);
    ctx.count(&format!("adder.width.{}", w), 1);
    for i in 0..count {
        let idx = unravel(i, &r_shape);
        let x = a[bcast_index(&idx, lead_a)];
        let y = b[bcast_index(&idx, lead_b)];
        let (want, carry) = if w == 128 {
            let (s, c) = x.overflowing_add(y);
            (s, c as u128)
        } else {
            let s = x + y;
            (s & mask(w as u32), s >> w)
        };
        if sums[i] != want || ovs.as_ref().map(|o| o[i] != carry).unwrap_or(false) {
            ctx.violation(
                &format!("C17|BinaryAdd|wrong_result|{}", tag),
                json!({"what": format!("{} + {} at width {}: sum {} carry {:?}, expected {} carry {}", x, y, w,
                                       sums[i], ovs.as_ref().map(|o| o[i]), want, carry), "overflow_bit": overflow}),
            );
            break;
        }
    }
}

fn adder_corner_pairs(rng: &mut Rng, w: usize, n: usize) -> (Vec<u128>, Vec<u128>) {
    let m = mask(w as u32);
    let alt = 0x5555_5555_5555_5555_5555_5555_5555_5555u128 & m;
    let mut a = vec![m, m, alt, alt, m >> 1, 1, 0, 1u128 << (w - 1)];
    let mut b = vec![1, m, !alt & m, alt, 1, m, 0, 1u128 << (w - 1)];
    while a.len() < n {
        let x = rng.next_u128() & m;
        let y = match rng.below(4) {
            0 => (!x).wrapping_add(1) & m, // x + y = 2^w exactly: carry across the whole word
            1 => !x & m,
            _ => rng.next_u128() & m,
        };
        a.push(x);
        b.push(y);
    }
    a.truncate(n);
    b.truncate(n);
    (a, b)
}

fn mux_case(ctx: &mut Ctx) {
    let payload_bits = ctx.rng.bool();
    let st = if payload_bits { BIT } else { *ctx.rng.pick(&INT_ST) };
    let base: Vec<u64> = (0..ctx.rng.range(1, 3)).map(|_| ctx.rng.range(1, 4)).collect();
    let variant = |rng: &mut Rng, base: &[u64]| -> Vec<u64> {
        let mut s: Vec<u64> = base.iter().map(|d| if rng.chance(1, 3) { 1 } else { *d }).collect();
        let drop = rng.usize(s.len() + 1);
        s.drain(..drop);
        s
    };
    let sc = variant(&mut ctx.rng, &base);
    let sa = variant(&mut ctx.rng, &base);
    let sb = variant(&mut ctx.rng, &base);
    let mk = |s: &[u64], st| if s.is_empty() { scalar_type(st) } else { array_type(s.to_vec(), st) };
    let (tc, ta, tb) = (mk(&sc, BIT), mk(&sa, st), mk(&sb, st));
    let c = match custom_context(CustomOperation::new(Mux {}), &[tc.clone(), ta.clone(), tb.clone()]) {
        Ok(c) => c,
        Err(_) => {
            ctx.count("mux_build_rejected", 1);
            return;
        }
    };
    let n = |s: &[u64]| s.iter().product::<u64>() as usize;
    let w = st_bits(st);
    let cv: Vec<u128> = (0..n(&sc)).map(|_| (ctx.rng.next_u64() & 1) as u128).collect();
    let av: Vec<u128> = (0..n(&sa)).map(|_| ctx.rng.next_u128() & mask(w)).collect();
    let bv: Vec<u128> = (0..n(&sb)).map(|_| ctx.rng.next_u128() & mask(w)).collect();
    let out = match eval_instantiated(
        &c,
        None,
        vec![value_of_ints(&cv, BIT), value_of_ints(&av, st), value_of_ints(&bv, st)],
        ctx.rng.seed16(),
    ) {
        Ok(v) => v,
        Err(e) => {
            ctx.violation("C17|Mux|eval_failed", json!({"what": e, "types": format!("{} {} {}", tc, ta, tb)}));
            return;
        }
    };
    let r = broadcast_shapes(&broadcast_shapes(&sc, &sa).unwrap(), &sb).unwrap();
    let rt = mk(&r, st);
    let got = match ints_of_value(&out, &rt) {
        Some(g) => g,
        None => {
            ctx.violation("C17|Mux|result_shape", json!({"what": "result does not have the broadcast shape",
                          "types": format!("{} {} {}", tc, ta, tb)}));
            return;
        }
    };
    ctx.count("mux_elements", got.len() as u64);
    for i in 0..got.len() {
        let idx = unravel(i, &r);
        let sel = cv[bcast_index(&idx, &sc)];
        let want = if sel == 1 { av[bcast_index(&idx, &sa)] } else { bv[bcast_index(&idx, &sb)] };
        if got[i] != want {
            ctx.violation(
                &format!("C17|Mux|wrong_result|{}", if payload_bits { "bits" } else { "ints" }),
                json!({"what": format!("selector {} chose {} instead of {}", sel, got[i], want),
                       "types": format!("{} {} {}", tc, ta, tb)}),
            );
            break;
        }
    }
}

fn clip_case(ctx: &mut Ctx, w: usize, k: u64, xs: &[u128], tag: &str) {
    let c = match custom_context(CustomOperation::new(Clip2K { k }), &[bits_t(&[xs.len() as u64], w)]) {
        Ok(c) => c,
        Err(_) => {
            ctx.count("clip_build_rejected", 1);
            return;
        }
    };
    let out = match eval_instantiated(&c, None, vec![bits_value(xs, w)], ctx.rng.seed16()) {
        Ok(v) => v,
        Err(e) => {
            ctx.violation("C17|Clip2K|eval_failed", json!({"what": e, "w": w, "k": k}));
            return;
        }
    };
    let got = match nums_of_bits(&out, xs.len(), w) {
        Some(g) => g,
        None => {
            ctx.violation("C17|Clip2K|result_shape", json!({"what": "wrong result size", "w": w, "k": k}));
            return;
        }
    };
    ctx.count("clip_elements", xs.len() as u64);
    for (x, g) in xs.iter().zip(got.iter()) {
        let sx = signed_of(*x, w);
        let want: u128 = if sx <= 0 {
            0
        } else if sx >= (1i128 << k) {
            1u128 << k
        } else {
            sx as u128
        };
        if *g != want {
            ctx.violation(
                &format!("C17|Clip2K|wrong_result|{}", tag),
                json!({"what": format!("Clip2K(k={}) of {} (width {}) returned {} instead of {}", k, sx, w, g, want)}),
            );
            break;
        }
    }
}

fn div_case(ctx: &mut Ctx, signed: bool, wa: usize, wd: usize, lead_a: &[u64], lead_d: &[u64], a: &[u128], d: &[u128], tag: &str) {
    let c = match custom_context(
        CustomOperation::new(LongDivision { signed }),
        &[bits_t(lead_a, wa), bits_t(lead_d, wd)],
    ) {
        Ok(c) => c,
        Err(e) => {
            ctx.count("div_build_rejected", 1);
            if e.starts_with("panic") {
                ctx.violation("C17|LongDivision|build_panic", json!({"what": e}));
            }
            return;
        }
    };
    let out = match eval_instantiated(&c, None, vec![bits_value(a, wa), bits_value(d, wd)], ctx.rng.seed16()) {
        Ok(v) => v,
        Err(e) => {
            ctx.violation("C17|LongDivision|eval_failed", json!({"what": e, "wa": wa, "wd": wd, "signed": signed}));
            return;
        }
    };
    let r_shape = broadcast_shapes(lead_a, lead_d).unwrap();
    let count = r_shape.iter().product::<u64>() as usize;
    let parts = match out.to_vector() {
        Ok(p) if p.len() == 2 => p,
        _ => {
            ctx.violation("C17|LongDivision|result_shape", json!({"what": "result is not a (quotient, remainder) pair"}));
            return;
        }
    };
    let (q, r) = match (nums_of_bits(&parts[0], count, wa), nums_of_bits(&parts[1], count, wd)) {
        (Some(q), Some(r)) => (q, r),
        _ => {
            ctx.violation("C17|LongDivision|result_shape", json!({"what": "quotient / remainder have the wrong size",
                          "wa": wa, "wd": wd}));
            return;
        }
    };
    ctx.count("division_pairs", count as u64);
    ctx.count(&format!("division.width.{}x{}.{}", wa, wd, if signed { "signed" } else { "unsigned" }), 1);
    let mut seen_classes: Vec<String> = vec![];
    for i in 0..count {
        let idx = unravel(i, &r_shape);
        let x = a[bcast_index(&idx, lead_a)];
        let y = d[bcast_index(&idx, lead_d)];
        if y & mask(wd as u32) == 0 {
            continue; // zero divisors are outside the property
        }
        let (wq, wr): (u128, u128) = if signed {
            let (sx, sy) = (signed_of(x, wa), signed_of(y, wd));
            // floored division
            let mut qq = sx.wrapping_div(sy);
            let mut rr = sx.wrapping_rem(sy);
            if rr != 0 && ((rr < 0) != (sy < 0)) {
                qq -= 1;
                rr += sy;
            }
            ((qq as u128) & mask(wa as u32), (rr as u128) & mask(wd as u32))
        } else {
            ((x / y) & mask(wa as u32), (x % y) & mask(wd as u32))
        };
        if q[i] != wq || r[i] != wr {
            let show = |v: u128, w: usize| if signed { format!("{}", signed_of(v, w)) } else { format!("{}", v) };
            // class of the failing input (exact signature for known-findings matching)
            let class = if !signed && wa > wd && (y >> (wd - 1)) & 1 == 1 {
                "unsigned|dividend_wider_than_divisor|divisor_msb_set".to_string()
            } else {
                format!("signed={}|{}", signed, tag)
            };
            if seen_classes.contains(&class) {
                continue;
            }
            seen_classes.push(class.clone());
            ctx.violation(
                &format!("C17|LongDivision|wrong_result|{}", class),
                json!({"what": format!("{} / {} (widths {}x{}): got q={} r={}, floored division gives q={} r={}",
                                       show(x, wa), show(y, wd), wa, wd, show(q[i], wa), show(r[i], wd), show(wq, wa), show(wr, wd))}),
            );
        }
    }
}

fn div_corner_pairs(rng: &mut Rng, w: usize, n: usize) -> (Vec<u128>, Vec<u128>) {
    let m = mask(w as u32);
    let min = 1u128 << (w - 1);
    let mut a = vec![min, 0, 5, m, min, min - 1, 7, m - 6 & m, 1, m];
    let mut d = vec![m, 3, 1, 1, 1, m, m, 2, min, min];
    while a.len() < n {
        let x = rng.next_u128() & m;
        let y = match rng.below(6) {
            0 => x,
            1 => (!x).wrapping_add(1) & m,
            2 => rng.below(4) as u128 + 1,
            3 => (m - rng.below(4) as u128) & m,
            _ => rng.next_u128() & m,
        };
        a.push(x);
        d.push(if y == 0 { 1 } else { y });
    }
    a.truncate(n);
    d.truncate(n);
    (a, d)
}

pub fn run(ctx: &mut Ctx) {
    // BinaryAdd: exhaustive for n in {1,2,4,8}, both overflow flags
    let combos: Vec<(usize, bool)> = [1usize, 2, 4, 8].iter().flat_map(|w| [(*w, false), (*w, true)]).collect();
    ctx.cases("adder_exhaustive", combos.len() as u64, |ctx, idx| {
        let (w, ov) = combos[idx as usize];
        let n = 1u64 << w;
        let all: Vec<u128> = (0..n as u128).collect();
        adder_case(ctx, w, ov, &[n, 1], &[n], &all, &all, "exhaustive");
        ctx.case_done(mix(&[1, w as u64, ov as u64]), true);
        ctx.sample(json!({"op": "BinaryAdd", "width": w, "overflow_bit": ov, "pairs": n * n}));
    });
    let total = ctx.q(1200, 20000);
    ctx.cases("adder_wide", total, |ctx, idx| {
        let w = [16usize, 32, 64, 128][(idx % 4) as usize];
        let n = ctx.rng.range(8, 48) as usize;
        let (a, b) = adder_corner_pairs(&mut ctx.rng, w, n);
        let ov = ctx.rng.bool();
        if ctx.rng.chance(1, 4) {
            adder_case(ctx, w, ov, &[n as u64, 1], &[2], &a, &b[..2], "wide");
        } else {
            adder_case(ctx, w, ov, &[n as u64], &[n as u64], &a, &b, "wide");
        }
        ctx.case_done(mix(&[2, idx]), true);
    });
    let total = ctx.q(8000, 100000);
    ctx.cases("mux", total, |ctx, idx| {
        mux_case(ctx);
        let salt = ctx.rng.next_u64();
        ctx.case_done(mix(&[3, idx, salt]), true);
    });
    // Clip2K: every k, all values for n = 8
    let mut clip_combos: Vec<(usize, u64)> = vec![];
    for w in [8usize, 16, 32, 64] {
        for k in 0..(w as u64 - 1) {
            clip_combos.push((w, k));
        }
    }
    ctx.cases("clip", clip_combos.len() as u64, |ctx, idx| {
        let (w, k) = clip_combos[idx as usize];
        let m = mask(w as u32);
        let xs: Vec<u128> = if w == 8 {
            (0..256).collect()
        } else {
            let p = 1u128 << k;
            let mut v = vec![m, 0, 1, p.wrapping_sub(1) & m, p, p + 1, 1u128 << (w - 1), (1u128 << (w - 1)) - 1, m - 1, p << 1 & m];
            for _ in 0..40 {
                v.push(ctx.rng.next_u128() & m);
                v.push(ctx.rng.next_u128() & (p << 1).wrapping_sub(1) & m);
            }
            v
        };
        clip_case(ctx, w, k, &xs, if w == 8 { "exhaustive" } else { "wide" });
        ctx.case_done(mix(&[4, w as u64, k]), true);
    });
    // LongDivision: all (a, d != 0) for n in {2,4,8}
    let div_combos: Vec<(usize, bool)> = [2usize, 4, 8].iter().flat_map(|w| [(*w, false), (*w, true)]).collect();
    ctx.cases("div_exhaustive", div_combos.len() as u64, |ctx, idx| {
        let (w, s) = div_combos[idx as usize];
        let n = 1u64 << w;
        let all: Vec<u128> = (0..n as u128).collect();
        div_case(ctx, s, w, w, &[n, 1], &[n], &all, &all, "exhaustive");
        ctx.case_done(mix(&[5, w as u64, s as u64]), true);
        ctx.sample(json!({"op": "LongDivision", "width": w, "signed": s, "pairs": n * (n - 1)}));
    });
    // mixed widths, exhaustive: dividend wider than divisor and the reverse
    let mixed: Vec<(usize, usize, bool)> = vec![(8, 4, false), (8, 4, true), (4, 2, false), (4, 2, true), (4, 8, false), (4, 8, true), (8, 2, false), (8, 2, true)];
    ctx.cases("div_mixed_exhaustive", mixed.len() as u64, |ctx, idx| {
        let (wa, wd, s) = mixed[idx as usize];
        let alla: Vec<u128> = (0..(1u128 << wa)).collect();
        let alld: Vec<u128> = (0..(1u128 << wd)).collect();
        div_case(ctx, s, wa, wd, &[1u64 << wa, 1], &[1u64 << wd], &alla, &alld, "mixed_exhaustive");
        ctx.case_done(mix(&[7, wa as u64, wd as u64, s as u64]), true);
    });
    let total = ctx.q(400, 8000);
    ctx.cases("div_wide", total, |ctx, idx| {
        let widths: &[usize] = if ctx.quick() { &[16, 32, 64] } else { &[16, 32, 64, 128] };
        let w = widths[(idx as usize) % widths.len()];
        let s = ctx.rng.bool();
        let n = ctx.rng.range(10, 24) as usize;
        let (a, d) = div_corner_pairs(&mut ctx.rng, w, n);
        match ctx.rng.below(5) {
            0 => div_case(ctx, s, w, w, &[n as u64, 1], &[3], &a, &d[..3], "wide"),
            1 if w >= 16 => {
                // narrower divisor
                let wd = w / 2;
                let d2: Vec<u128> = d.iter().map(|x| { let y = x & mask(wd as u32); if y == 0 { 1 } else { y } }).collect();
                div_case(ctx, s, w, wd, &[n as u64], &[n as u64], &a, &d2, "mixed_width");
            }
            _ => div_case(ctx, s, w, w, &[n as u64], &[n as u64], &a, &d, "wide"),
        }
        ctx.case_done(mix(&[6, idx]), true);
    });
}
