pub mod c01;
pub mod c02;
pub mod c13;
pub mod c14;
pub mod c15;
pub mod mpc_common;

use crate::ctx::Ctx;

pub fn dispatch(ctx: &mut Ctx) -> bool {
    match ctx.prop.as_str() {
        "C01" => c01::run(ctx),
        "C02" => c02::run(ctx),
        "C13" => c13::run(ctx),
        "C14" => c14::run(ctx),
        "C15" => c15::run(ctx),
        _ => return false,
    }
    true
}
