//! C03 — a party's view reveals nothing beyond its own inputs and outputs.
//!
//! Exact mode: for small bit-typed graphs the protocol's randomness is idealised as a tape of
//! independent bits (one per distinct (key identity, counter) PRF evaluation; key-typed Random
//! nodes return a symbolic identity), ALL tapes are enumerated over real three-party executions, and
//! for every observer the histogram view -> count must be identical for any two assignments of the
//! other parties' inputs that give the observer the same own inputs and output.
//! Sampled mode: multi-bit templates with the real PRF and fresh party seeds; per-scalar, pairwise
//! and three-way histograms of the observer's view are emitted for two-sample chi-square tests.

use super::custom_common::build_context;
use super::mpc_common::*;
use crate::ctx::Ctx;
use crate::mon::party3::{run3, PartyHook};
use crate::rng::{fnv, mix, Rng};
use crate::val::*;
use ciphercore_base::data_types::{array_type, scalar_type, ScalarType, Type, BIT, INT8, UINT8};
use ciphercore_base::data_values::Value;
use ciphercore_base::errors::Result as CResult;
use ciphercore_base::graphs::{Context, Graph, Node, Operation};
use serde_json::json;
use std::collections::{BTreeMap, HashMap, HashSet};

// ------------------------------------------------------------------------------------------
// ideal PRF / tape hook
// ------------------------------------------------------------------------------------------
struct Ideal {
    /// (key bytes, counter) -> variable index
    vars: HashMap<(Vec<u8>, u64), usize>,
    /// per variable: number of bits, parties that evaluated it, node where first evaluated
    info: Vec<(usize, HashSet<usize>, u64)>,
    /// per variable: Some(offset into the enumerated tape) or None (fixed by the conditioning seed)
    slot: Vec<Option<usize>>,
    tape: u64,
    cond_seed: u64,
    discovering: bool,
    unsupported: Option<String>,
}

impl Ideal {
    fn new(cond_seed: u64) -> Ideal {
        Ideal { vars: HashMap::new(), info: vec![], slot: vec![], tape: 0, cond_seed, discovering: true, unsupported: None }
    }
    fn bits_for(&self, var: usize, n: usize) -> Vec<u128> {
        match self.slot.get(var).cloned().flatten() {
            Some(off) => (0..n).map(|i| ((self.tape >> (off + i)) & 1) as u128).collect(),
            None => (0..n).map(|i| (mix(&[self.cond_seed, var as u64, i as u64]) & 1) as u128).collect(),
        }
    }
}

impl PartyHook for Ideal {
    fn eval(&mut self, party: usize, node: &Node, deps: &[Value]) -> Option<CResult<Value>> {
        match node.get_operation() {
            Operation::Random(t) => {
                let key_t = array_type(vec![128], BIT);
                if t == key_t {
                    // symbolic key identity: (node, generating party)
                    let mut b = vec![0u8; 16];
                    b[..8].copy_from_slice(&node.get_id().to_le_bytes());
                    b[8..].copy_from_slice(&(party as u64 + 1).to_le_bytes());
                    Some(Ok(Value::from_bytes(b)))
                } else {
                    self.unsupported = Some(format!("Random({})", t));
                    None
                }
            }
            Operation::PRF(iv, t) => {
                let st = match &t {
                    Type::Scalar(st) | Type::Array(_, st) => *st,
                    _ => {
                        self.unsupported = Some("PRF of a container type".into());
                        return None;
                    }
                };
                if st != BIT {
                    self.unsupported = Some(format!("PRF({})", t));
                    return None;
                }
                let n = type_elems(&t);
                let key = deps[0].access_bytes(|b| Ok(b.to_vec())).unwrap_or_default();
                let next = self.vars.len();
                let var = *self.vars.entry((key, iv)).or_insert(next);
                if var == self.info.len() {
                    self.info.push((n, HashSet::new(), node.get_id()));
                    self.slot.push(None);
                }
                if self.discovering {
                    self.info[var].1.insert(party);
                }
                Some(Ok(value_of_ints(&self.bits_for(var, n), BIT)))
            }
            Operation::PermutationFromPRF(_, _) | Operation::RandomPermutation(_) => {
                self.unsupported = Some("permutation randomness".into());
                None
            }
            _ => None,
        }
    }
}

fn view_hash(run: &crate::mon::party3::Run3, p: usize) -> u64 {
    let mut acc: Vec<u8> = Vec::with_capacity(run.vals.len() * 4);
    for v in run.vals.iter() {
        canon(&v[p], &mut acc);
    }
    fnv(&acc)
}

// ------------------------------------------------------------------------------------------
// small bit circuits
// ------------------------------------------------------------------------------------------
struct Circuit {
    ctx: Context,
    n_in: usize,
    desc: String,
}

fn gen_circuit(rng: &mut Rng) -> Option<Circuit> {
    let n_in = rng.range(2, 3) as usize;
    let n_gates = rng.range(1, 4) as usize;
    let mut desc = vec![];
    let gates: Vec<(u64, usize, usize)> = (0..n_gates)
        .map(|g| {
            let avail = n_in + g;
            (rng.below(4), rng.usize(avail), rng.usize(avail))
        })
        .collect();
    let gates2 = gates.clone();
    let out_kind = if rng.bool() { 0 } else { rng.range(1, 4) };
    let extra = (rng.usize(n_in + n_gates), rng.usize(n_in + n_gates));
    let c = build_context(&vec![scalar_type(BIT); n_in], move |g: &Graph, ins: &[Node]| {
        let mut pool: Vec<Node> = ins.to_vec();
        for (op, a, b) in gates2.iter() {
            let (x, y) = (pool[*a].clone(), pool[*b].clone());
            let n = match op {
                0 | 1 => g.multiply(x, y)?,
                2 => g.add(x, y)?,
                _ => g.add(x, g.ones(scalar_type(BIT))?)?,
            };
            pool.push(n);
        }
        // output: the last gate, or a tuple / vector of the last gate and other wires (local
        // multi-argument operations must not let an un-reshared product through)
        let last = pool.last().unwrap().clone();
        match out_kind {
            0 => Ok(last),
            1 => g.create_tuple(vec![last, pool[extra.0].clone()]),
            2 => g.create_tuple(vec![pool[extra.0].clone(), last, pool[extra.1].clone()]),
            3 => g.create_vector(scalar_type(BIT), vec![pool[extra.0].clone(), last]),
            _ => g.create_tuple(vec![last.clone(), pool[extra.0].clone()])?.tuple_get(0),
        }
    })
    .ok()?;
    desc.push(format!("out_kind={} extra={:?}", out_kind, extra));
    for (op, a, b) in gates.iter() {
        desc.push(match op {
            0 | 1 => format!("AND({},{})", a, b),
            2 => format!("XOR({},{})", a, b),
            _ => format!("NOT({})", a),
        });
    }
    Some(Circuit { ctx: c, n_in, desc: desc.join(" ") })
}

fn exact_case(ctx: &mut Ctx, idx: u64) {
    let circ = match gen_circuit(&mut ctx.rng) {
        Some(c) => c,
        None => return,
    };
    let owners: Vec<Owner> = (0..circ.n_in)
        .map(|_| match ctx.rng.below(7) {
            0 => Owner::Public,
            x => Owner::P(x % 3),
        })
        .collect();
    let outs = ctx.rng.pick(&all_out_lists()).clone();
    let (inline, inline_name) = inline_modes()[0].clone();
    let cfg = Config { owners: owners.clone(), outs: outs.clone(), inline, inline_name };
    let compiled = match compile(&circ.ctx, &cfg, ctx.rng.seed16()) {
        Compiled::Ok(c) => c,
        _ => {
            ctx.count("compile_rejected", 1);
            return;
        }
    };
    let g = compiled.get_main_graph().unwrap();
    let types = vec![scalar_type(BIT); circ.n_in];
    let t_max = ctx.q(12usize, 16);
    let n_cond = ctx.q(2u64, 4);
    let seeds = [[1u8; 16], [2u8; 16], [3u8; 16]];
    // inputs for an assignment x (bit k of `x` = input k); junk = zeros
    let party_inputs = |x: u64| -> [Vec<Value>; 3] {
        let mut out: [Vec<Value>; 3] = [vec![], vec![], vec![]];
        for k in 0..circ.n_in {
            let real = value_of_ints(&[((x >> k) & 1) as u128], BIT);
            let zero = value_of_ints(&[0], BIT);
            for p in 0..3 {
                let v = match owners[k] {
                    Owner::Public => real.clone(),
                    Owner::P(q) if q as usize == p => real.clone(),
                    _ => zero.clone(),
                };
                out[p].push(v);
            }
        }
        out
    };
    let mut compared_total = 0u64;
    for cond in 0..n_cond {
        let mut ideal = Ideal::new(mix(&[ctx.seed, idx, cond]));
        // discovery run
        match run3(&g, &party_inputs(0), seeds, 0, &mut ideal) {
            Ok(_) => {}
            Err(_) => return,
        }
        if let Some(u) = &ideal.unsupported {
            ctx.count(&format!("exact_mode_unsupported.{}", u), 1);
            return;
        }
        // classify: per node, variables evaluated by exactly one party while another variable of
        // the same node is shared by two parties are that party's junk randomness (fixed)
        let mut by_node: HashMap<u64, Vec<usize>> = HashMap::new();
        for (v, (_, _, node)) in ideal.info.iter().enumerate() {
            by_node.entry(*node).or_default().push(v);
        }
        let mut off = 0usize;
        let mut n_fixed = 0;
        for v in 0..ideal.info.len() {
            let node = ideal.info[v].2;
            let shared_exists = by_node[&node].iter().any(|w| ideal.info[*w].1.len() >= 2);
            let fake = shared_exists && ideal.info[v].1.len() == 1;
            if fake {
                ideal.slot[v] = None;
                n_fixed += 1;
            } else {
                ideal.slot[v] = Some(off);
                off += ideal.info[v].0;
            }
        }
        if off > t_max {
            ctx.count("exact_mode_too_many_tape_bits", 1);
            return;
        }
        ideal.discovering = false;
        ctx.count("tape_bits_enumerated", off as u64);
        ctx.count("tape_variables_fixed_by_conditioning", n_fixed);
        // enumerate
        let n_assign = 1u64 << circ.n_in;
        // hist[p][x] : view hash -> count ; out[p][x] : output value of p (canonical)
        let mut hist: Vec<Vec<HashMap<u64, u32>>> = vec![vec![HashMap::new(); n_assign as usize]; 3];
        let mut outv: Vec<Vec<Vec<u8>>> = vec![vec![vec![]; n_assign as usize]; 3];
        let mut messages = 0u64;
        for x in 0..n_assign {
            let ins = party_inputs(x);
            for tape in 0..(1u64 << off) {
                ideal.tape = tape;
                let run = match run3(&g, &ins, seeds, 0, &mut ideal) {
                    Ok(r) => r,
                    Err(_) => return,
                };
                ctx.count("executions", 1);
                messages += run.msgs.len() as u64;
                for p in 0..3 {
                    *hist[p][x as usize].entry(view_hash(&run, p)).or_insert(0) += 1;
                    if tape == 0 {
                        let mut b = vec![];
                        canon(&run.output(p), &mut b);
                        outv[p][x as usize] = b;
                    }
                }
            }
        }
        ctx.count("messages", messages);
        ctx.count("tapes_enumerated", (1u64 << off) * n_assign);
        // compare within classes
        for p in 0..3usize {
            let own_mask: u64 = (0..circ.n_in)
                .filter(|k| matches!(owners[*k], Owner::Public) || owners[*k] == Owner::P(p as u64))
                .map(|k| 1u64 << k)
                .sum();
            let recipient = outs.contains(&(p as u64));
            let mut classes: BTreeMap<(u64, Vec<u8>), Vec<u64>> = BTreeMap::new();
            for x in 0..n_assign {
                let out_key = if recipient { outv[p][x as usize].clone() } else { vec![] };
                classes.entry((x & own_mask, out_key)).or_default().push(x);
            }
            for (_, xs) in classes.iter() {
                for x in xs.iter().skip(1) {
                    ctx.count("assignment_pairs_compared", 1);
                    compared_total += 1;
                    ctx.count("histogram_cells", hist[p][xs[0] as usize].len() as u64);
                    if hist[p][xs[0] as usize] != hist[p][*x as usize] {
                        let kind = if recipient { "recipient" } else { "non_recipient" };
                        ctx.violation(
                            &format!("C03|view_depends_on_other_inputs|exact|{}", kind),
                            json!({"what": format!("party {}'s view distribution differs between input assignments {:b} and {:b} (same own inputs{}), over all {} tapes",
                                                   p, xs[0], x, if recipient { " and same output" } else { "" }, 1u64 << off),
                                   "circuit": circ.desc, "config": cfg.describe(),
                                   "distinct_views": [hist[p][xs[0] as usize].len(), hist[p][*x as usize].len()]}),
                        );
                        return;
                    }
                }
            }
        }
    }
    ctx.case_done(mix(&[fnv(circ.desc.as_bytes()), fnv(cfg.describe().as_bytes())]), compared_total > 0);
    if idx < 64 {
        ctx.sample(json!({"mode": "exact", "circuit": circ.desc, "config": cfg.describe(), "pairs_compared": compared_total}));
    }
}

// ------------------------------------------------------------------------------------------
// sampled mode
// ------------------------------------------------------------------------------------------
struct Template {
    name: &'static str,
    ctx: Context,
    types: Vec<Type>,
    /// inputs whose values are varied between x and x'
    st: Vec<ScalarType>,
}

fn templates() -> Vec<Template> {
    let mut v = vec![];
    let u8s = scalar_type(UINT8);
    let mk = |name: &'static str, types: Vec<Type>, f: &dyn Fn(&Graph, &[Node]) -> CResult<Node>| -> Option<Template> {
        let c = build_context(&types, |g, i| f(g, i)).ok()?;
        let st = types.iter().map(|t| t.get_scalar_type()).collect();
        Some(Template { name, ctx: c, types, st })
    };
    let arr = |n: u64, st: ScalarType| array_type(vec![n], st);
    v.extend(mk("multiply", vec![u8s.clone(), u8s.clone()], &|_, i| i[0].multiply(i[1].clone())));
    v.extend(mk("multiply_add", vec![u8s.clone(), u8s.clone(), u8s.clone()], &|_, i| i[0].multiply(i[1].clone())?.add(i[2].clone())));
    v.extend(mk("product_chain", vec![u8s.clone(), u8s.clone(), u8s.clone()], &|_, i| i[0].multiply(i[1].clone())?.multiply(i[2].clone())));
    v.extend(mk("mixed_multiply", vec![u8s.clone(), scalar_type(BIT)], &|_, i| i[0].mixed_multiply(i[1].clone())));
    v.extend(mk("a2b", vec![u8s.clone()], &|_, i| i[0].a2b()));
    v.extend(mk("a2b_b2a", vec![u8s.clone(), u8s.clone()], &|_, i| i[0].add(i[1].clone())?.a2b()?.b2a(UINT8)));
    v.extend(mk("dot", vec![arr(2, UINT8), arr(2, UINT8)], &|_, i| i[0].dot(i[1].clone())));
    v.extend(mk("truncate_2k", vec![scalar_type(INT8)], &|_, i| i[0].truncate(4)));
    v.extend(mk("sum_then_multiply", vec![u8s.clone(), u8s.clone(), u8s], &|_, i| i[0].add(i[1].clone())?.multiply(i[2].clone())));
    v
}

fn flat_scalars(v: &Value, t: &Type, out: &mut Vec<u8>) {
    match t {
        Type::Scalar(_) | Type::Array(_, _) => {
            if type_elems(t) <= 16 {
                if let Some(xs) = ints_of_value(v, t) {
                    for x in xs {
                        out.push((x & 0xff) as u8);
                    }
                }
            }
        }
        Type::Tuple(ts) => {
            if let Ok(k) = v.to_vector() {
                for (x, tt) in k.iter().zip(ts.iter()) {
                    flat_scalars(x, tt, out);
                }
            }
        }
        _ => {}
    }
}

pub fn run(ctx: &mut Ctx) {
    // sampled mode first (a fixed amount of work); the exact mode then runs until its case budget
    // or the soft deadline, whichever comes first
    // sampled mode: histograms are emitted; the statistical decision is made by the Python monitor
    let tpls = templates();
    let n_samples = ctx.q(3000u64, 30000);
    let per = ctx.q(3u64, 12);
    let mut records: Vec<serde_json::Value> = vec![];
    ctx.cases("sampled", tpls.len() as u64 * per, |ctx, idx| {
        let tp = &tpls[(idx % tpls.len() as u64) as usize];
        let n_in = tp.types.len();
        // distinct private owners where possible; outputs either one party or secret-shared
        let owners: Vec<Owner> = (0..n_in).map(|k| Owner::P(((idx / tpls.len() as u64) + k as u64) % 3)).collect();
        let outs: Vec<u64> = match ctx.rng.below(3) {
            0 => vec![],
            _ => vec![ctx.rng.below(3)],
        };
        let (inline, inline_name) = inline_modes()[ctx.rng.usize(3)].clone();
        let cfg = Config { owners: owners.clone(), outs: outs.clone(), inline, inline_name };
        let compiled = match compile(&tp.ctx, &cfg, ctx.rng.seed16()) {
            Compiled::Ok(c) => c,
            _ => {
                ctx.count("compile_rejected", 1);
                return;
            }
        };
        let g = compiled.get_main_graph().unwrap();
        let node_types: Vec<Type> = g.get_nodes().iter().map(|n| n.get_type().unwrap()).collect();
        // observer: a party that is NOT an output recipient (its view must be independent of all
        // other parties' inputs), or a recipient with two assignments giving the same output
        let observer = (0..3u64).find(|p| !outs.contains(p)).unwrap_or(0) as usize;
        let rand_in = |rng: &mut Rng, t: &Type, st: ScalarType| -> Value {
            if st == INT8 {
                // documented range of secure truncation: [-2^(w-2), 2^(w-2))
                let x = rng.irange(-64, 63);
                value_of_ints(&[(x as i128 as u128) & 0xff], INT8)
            } else {
                rand_value(rng, t, Fill::Uniform)
            }
        };
        // two assignments that agree on the observer's own inputs
        let base: Vec<Value> = (0..n_in).map(|k| rand_in(&mut ctx.rng, &tp.types[k], tp.st[k])).collect();
        let mut alt = base.clone();
        let mut changed = false;
        for k in 0..n_in {
            if owners[k] != Owner::P(observer as u64) {
                alt[k] = match ctx.rng.below(3) {
                    0 => Value::zero_of_type(tp.types[k].clone()),
                    1 => rand_value(&mut ctx.rng, &tp.types[k], Fill::Ones),
                    _ => rand_in(&mut ctx.rng, &tp.types[k], tp.st[k]),
                };
                if tp.st[k] == INT8 {
                    alt[k] = value_of_ints(&[0x3f], INT8);
                }
                changed |= alt[k] != base[k];
            }
        }
        if !changed {
            return;
        }
        // scalars of the observer's view: per node value (small arrays only)
        let mut hists: Vec<Vec<Vec<u32>>> = vec![vec![], vec![]]; // [assignment][scalar][256]
        let mut msg_idx: Vec<usize> = vec![];
        for (ai, assign) in [&base, &alt].iter().enumerate() {
            for s in 0..n_samples {
                let ins = inputs_party(&mut ctx.rng, &cfg, &tp.types, assign, Fill::Zeros);
                let seeds = seeds3(&mut ctx.rng);
                let js = ctx.rng.next_u64();
                let run = match run_parties(&compiled, &ins, seeds, js, None) {
                    Ok(r) => r,
                    Err(_) => return,
                };
                let mut scalars: Vec<u8> = vec![];
                let mut starts: Vec<usize> = vec![];
                for (ni, v) in run.vals.iter().enumerate() {
                    starts.push(scalars.len());
                    flat_scalars(&v[observer], &node_types[ni], &mut scalars);
                }
                if ai == 0 && s == 0 {
                    // scalars that belong to received messages (for pairwise / three-way tests)
                    for m in run.msgs.iter().filter(|m| m.to == observer) {
                        let a = starts[m.node as usize];
                        let b = if (m.node as usize) + 1 < starts.len() { starts[m.node as usize + 1] } else { scalars.len() };
                        for i in a..b {
                            if msg_idx.len() < 14 {
                                msg_idx.push(i);
                            }
                        }
                    }
                    ctx.count("messages_to_observer", run.msgs.iter().filter(|m| m.to == observer).count() as u64);
                }
                if hists[ai].is_empty() {
                    let extra = msg_idx.len() * (msg_idx.len() - 1) / 2 + if msg_idx.len() >= 3 { msg_idx.len() * (msg_idx.len() - 1) * (msg_idx.len() - 2) / 6 } else { 0 };
                    hists[ai] = vec![vec![0u32; 256]; scalars.len() + extra];
                }
                if hists[ai].len() < scalars.len() {
                    return;
                }
                for (i, v) in scalars.iter().enumerate() {
                    hists[ai][i][*v as usize] += 1;
                }
                // pairwise and three-way sums of message scalars
                let mut k = scalars.len();
                for a in 0..msg_idx.len() {
                    for b in a + 1..msg_idx.len() {
                        let v = scalars[msg_idx[a]].wrapping_add(scalars[msg_idx[b]]);
                        hists[ai][k][v as usize] += 1;
                        k += 1;
                    }
                }
                if msg_idx.len() >= 3 {
                    for a in 0..msg_idx.len() {
                        for b in a + 1..msg_idx.len() {
                            for c in b + 1..msg_idx.len() {
                                let v = scalars[msg_idx[a]].wrapping_add(scalars[msg_idx[b]]).wrapping_add(scalars[msg_idx[c]]);
                                hists[ai][k][v as usize] += 1;
                                k += 1;
                            }
                        }
                    }
                }
                ctx.count("sampled_executions", 1);
            }
        }
        ctx.count("sampled_templates", 1);
        ctx.count(&format!("template.{}", tp.name), 1);
        // keep only scalars that are not constant in both assignments
        let mut tests = vec![];
        for i in 0..hists[0].len().min(hists[1].len()) {
            let nz0 = hists[0][i].iter().filter(|x| **x > 0).count();
            let nz1 = hists[1][i].iter().filter(|x| **x > 0).count();
            if nz0 > 1 || nz1 > 1 || hists[0][i] != hists[1][i] {
                tests.push(json!({"i": i, "a": hists[0][i], "b": hists[1][i]}));
            }
        }
        ctx.count("scalar_histogram_pairs", tests.len() as u64);
        records.push(json!({"template": tp.name, "config": cfg.describe(), "observer": observer, "case": ctx.case_key,
                            "samples": n_samples, "tests": tests}));
        ctx.case_done(mix(&[idx, 555, fnv(cfg.describe().as_bytes())]), true);
        if idx < 18 {
            ctx.sample(json!({"mode": "sampled", "template": tp.name, "config": cfg.describe(), "observer": observer,
                              "samples_per_assignment": n_samples}));
        }
    });
    // histograms go to the aux directory for the Python monitor
    if let Ok(d) = std::env::var("VX_AUX_DIR") {
        std::fs::create_dir_all(&d).ok();
        let f = std::fs::File::create(format!("{}/c03_sampled_{}.json", d, ctx.shard)).unwrap();
        serde_json::to_writer(f, &records).ok();
    }
    let total = ctx.q(400, 12000);
    ctx.cases("exact", total, |ctx, idx| exact_case(ctx, idx));
}
