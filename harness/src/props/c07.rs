//! C07 — inlining preserves Call/Iterate semantics in every mode.

use crate::ctx::{guard, Ctx};
use crate::gen::iter::{gen_iter, CLASSES};
use crate::mon::obs::Obs;
use crate::rng::mix;
use crate::val::*;
use ciphercore_base::custom_ops::run_instantiation_pass;
use ciphercore_base::data_values::Value;
use ciphercore_base::evaluators::simple_evaluator::SimpleEvaluator;
use ciphercore_base::evaluators::Evaluator;
use ciphercore_base::graphs::{Context, Operation};
use ciphercore_base::inline::inline_ops::{inline_operations, DepthOptimizationLevel, InlineConfig, InlineMode};
use serde_json::json;

fn modes() -> Vec<(InlineMode, &'static str)> {
    vec![
        (InlineMode::Simple, "simple"),
        (InlineMode::DepthOptimized(DepthOptimizationLevel::Default), "default"),
        (InlineMode::DepthOptimized(DepthOptimizationLevel::Extreme), "extreme"),
    ]
}

fn count_random(c: &Context) -> u64 {
    c.get_main_graph()
        .map(|g| g.get_nodes().iter().filter(|n| matches!(n.get_operation(), Operation::Random(_))).count() as u64)
        .unwrap_or(0)
}

fn has_call_or_iterate(c: &Context) -> bool {
    c.get_main_graph()
        .map(|g| g.get_nodes().iter().any(|n| matches!(n.get_operation(), Operation::Call | Operation::Iterate)))
        .unwrap_or(true)
}

pub fn run(ctx: &mut Ctx) {
    let total = ctx.q(10000, 250000);
    ctx.cases("giter", total, |ctx, idx| {
        let class = CLASSES[(idx % CLASSES.len() as u64) as usize];
        // every length 0..40 is visited in rotation; lengths around the 15/16 switch more often
        let len = match (idx / CLASSES.len() as u64) % 50 {
            x if x <= 40 => x,
            x => [15, 16, 17, 1, 0, 31, 32, 33, 2][(x - 41) as usize],
        };
        let len = if class == "small_state" && ctx.quick() { len.min(24) } else { len };
        let prog = match gen_iter(&mut ctx.rng, class, len) {
            Some(p) => p,
            None => {
                ctx.count("generator_failed", 1);
                return;
            }
        };
        ctx.count("programs", 1);
        ctx.count(&format!("class.{}", class), 1);
        ctx.count(&format!("len.{}", len), 1);
        let inst = match guard(|| run_instantiation_pass(prog.ctx.clone())) {
            Ok(Ok(m)) => m.get_context(),
            _ => {
                ctx.count("instantiation_failed", 1);
                return;
            }
        };
        let ms = modes();
        let (default_mode, mname) = ms[ctx.rng.usize(3)].clone();
        let ov = |rng: &mut crate::rng::Rng| -> (Option<InlineMode>, &'static str) {
            match rng.below(8) {
                0 => (Some(InlineMode::Noop), "noop"),
                1 => (Some(InlineMode::Simple), "simple"),
                2 => (Some(InlineMode::DepthOptimized(DepthOptimizationLevel::Default)), "default"),
                3 => (Some(InlineMode::DepthOptimized(DepthOptimizationLevel::Extreme)), "extreme"),
                _ => (None, "-"),
            }
        };
        let (oc, ocn) = ov(&mut ctx.rng);
        let (oi, oin) = ov(&mut ctx.rng);
        let cfg = InlineConfig { default_mode, override_call_mode: oc, override_iterate_mode: oi };
        let cfg_name = format!("{}|call={}|iter={}", mname, ocn, oin);
        ctx.count(&format!("mode.{}", mname), 1);
        let inlined = {
            let (c, cf) = (inst.clone(), cfg.clone());
            guard(move || inline_operations(&c, cf))
        };
        let inl = match inlined {
            Ok(Ok(m)) => m.get_context(),
            Ok(Err(e)) => {
                ctx.violation(
                    &format!("C07|inline_error|{}", class),
                    json!({"what": format!("inlining a contract-satisfying context failed: {}",
                                           e.to_string().lines().next().unwrap_or("")),
                           "desc": prog.desc, "len": len, "config": cfg_name,
                           "context": serde_json::to_string(&prog.ctx).unwrap_or_default()}),
                );
                return;
            }
            Err(p) => {
                ctx.violation(
                    &format!("C07|inline_panic|{}", p.site),
                    json!({"what": p.message, "desc": prog.desc, "len": len, "config": cfg_name,
                           "context": serde_json::to_string(&prog.ctx).unwrap_or_default()}),
                );
                return;
            }
        };
        ctx.count("inlined_contexts", 1);
        ctx.count("inlined_nodes", inl.get_main_graph().map(|g| g.get_num_nodes()).unwrap_or(0));
        let fully = !has_call_or_iterate(&inl);
        ctx.count("fully_inlined", fully as u64);
        if prog.body_draws > 0 {
            // fresh randomness per inlined copy
            if fully {
                let copies = if prog.desc.contains("twice") { 2 * len } else { len };
                let want = prog.body_draws * copies;
                let got = count_random(&inl);
                ctx.count("random_copy_checks", 1);
                if got != want {
                    ctx.violation(
                        "C07|random_nodes_shared_between_copies",
                        json!({"what": format!("inlined graph has {} Random nodes for {} copies of a body drawing {}", got, copies, prog.body_draws),
                               "desc": prog.desc, "len": len, "config": cfg_name}),
                    );
                }
                // distinct draws in one execution
                let inputs: Vec<Value> = prog.input_types.iter().map(|t| rand_value(&mut ctx.rng, t, Fill::Uniform)).collect();
                let mut obs = Obs::new(ctx.rng.seed16());
                let r = {
                    let (c, o) = (inl.clone(), &mut obs);
                    guard(move || {
                        o.preprocess(&c)?;
                        o.evaluate_context(c, inputs)
                    })
                };
                if let Ok(Ok(_)) = r {
                    let mut seen = std::collections::HashSet::new();
                    for (_, v) in obs.random_draws.iter() {
                        let mut b = vec![];
                        canon(v, &mut b);
                        if b.len() >= 8 + 5 && !seen.insert(b) {
                            ctx.violation(
                                "C07|two_copies_observe_the_same_draw",
                                json!({"what": "two inlined copies observed the same random value", "desc": prog.desc, "len": len}),
                            );
                            break;
                        }
                    }
                }
            }
            ctx.case_done(mix(&[prog.hash, crate::rng::fnv(cfg_name.as_bytes())]), fully && len >= 2);
            return;
        }
        let n_draws = ctx.q(3, 8);
        let mut compared = 0;
        for d in 0..n_draws {
            let fill = if d == 0 { Fill::Uniform } else { pick_fill(&mut ctx.rng) };
            let inputs: Vec<Value> = prog.input_types.iter().map(|t| rand_value(&mut ctx.rng, t, fill)).collect();
            let eval = |c: &Context, ins: Vec<Value>, seed: [u8; 16]| {
                let c = c.clone();
                guard(move || {
                    let mut e = SimpleEvaluator::new(Some(seed))?;
                    e.preprocess(&c)?;
                    e.evaluate_context(c, ins)
                })
            };
            let a = eval(&inst, inputs.clone(), ctx.rng.seed16());
            let want = match a {
                Ok(Ok(v)) => v,
                _ => {
                    ctx.count("reference_eval_failed", 1);
                    continue;
                }
            };
            let b = eval(&inl, inputs.clone(), ctx.rng.seed16());
            ctx.count("evaluation_pairs", 1);
            match b {
                Ok(Ok(got)) => {
                    compared += 1;
                    if got != want {
                        ctx.violation(
                            &format!("C07|value_mismatch|{}|{}", prog.desc.split('+').next().unwrap_or(""), mname),
                            json!({"what": "inlined context computes a different value than native Call/Iterate evaluation",
                                   "desc": prog.desc, "len": len, "config": cfg_name,
                                   "context": serde_json::to_string(&prog.ctx).unwrap_or_default(),
                                   "inputs": inputs.iter().map(value_json).collect::<Vec<_>>(),
                                   "want": value_json(&want), "got": value_json(&got)}),
                        );
                        break;
                    }
                }
                Ok(Err(e)) => {
                    ctx.violation(
                        &format!("C07|inlined_eval_error|{}", class),
                        json!({"what": format!("inlined context fails to evaluate: {}", e.to_string().lines().next().unwrap_or("")),
                               "desc": prog.desc, "len": len, "config": cfg_name}),
                    );
                    break;
                }
                Err(p) => {
                    ctx.violation(
                        &format!("C07|inlined_eval_panic|{}", p.site),
                        json!({"what": p.message, "desc": prog.desc, "len": len, "config": cfg_name}),
                    );
                    break;
                }
            }
        }
        ctx.case_done(mix(&[prog.hash, crate::rng::fnv(cfg_name.as_bytes())]), compared > 0 && len >= 2 && fully);
        if idx < 96 {
            ctx.sample(json!({"class": class, "desc": prog.desc, "len": len, "config": cfg_name,
                              "inlined_nodes": inl.get_main_graph().map(|g| g.get_num_nodes()).unwrap_or(0)}));
        }
    });
}
