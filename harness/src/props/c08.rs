//! C08 — custom-operation instantiation is total and meaning-preserving.

use crate::ctx::{guard, Ctx};
use crate::gen::custom::{gen_custom, FAMILIES};
use crate::mon::obs::Obs;
use crate::val::*;
use ciphercore_base::custom_ops::run_instantiation_pass;
use ciphercore_base::data_values::Value;
use ciphercore_base::evaluators::simple_evaluator::SimpleEvaluator;
use ciphercore_base::evaluators::Evaluator;
use serde_json::json;
use std::collections::BTreeMap;

fn colliding_names(c: &ciphercore_base::graphs::Context) -> String {
    use ciphercore_base::graphs::Operation;
    let mut groups: BTreeMap<String, Vec<ciphercore_base::custom_ops::CustomOperation>> = BTreeMap::new();
    for g in c.get_graphs() {
        for n in g.get_nodes() {
            if let Operation::Custom(op) = n.get_operation() {
                let ts: Vec<String> = n.get_node_dependencies().iter().map(|d| format!("{}", d.get_type().unwrap())).collect();
                groups.entry(format!("{}::<{}>", op.get_name(), ts.join(", "))).or_default().push(op);
            }
        }
    }
    let mut names = std::collections::BTreeSet::new();
    for (k, ops) in groups.iter() {
        if ops.iter().any(|o| *o != ops[0]) {
            names.insert(k.split(|ch| ch == '(' || ch == ':').next().unwrap_or("").to_string());
        }
    }
    if names.is_empty() {
        "no-name-collision".to_string()
    } else {
        names.into_iter().collect::<Vec<_>>().join("+")
    }
}

fn one(ctx: &mut Ctx, probe: Option<&str>, idx: u64) {
    let prog = match gen_custom(&mut ctx.rng, probe) {
        Some(p) => p,
        None => {
            ctx.count("context_failed_to_build", 1);
            return;
        }
    };
    ctx.count("contexts", 1);
    ctx.count("custom_nodes", prog.ops.len() as u64);
    // families used with more than one parameterisation
    let mut by_fam: BTreeMap<String, std::collections::BTreeSet<String>> = BTreeMap::new();
    for (f, d) in prog.ops.iter() {
        by_fam.entry(f.clone()).or_default().insert(d.clone());
        ctx.count(&format!("family.{}", f), 1);
    }
    let multi: Vec<String> = by_fam.iter().filter(|(_, s)| s.len() > 1).map(|(f, _)| f.clone()).collect();
    ctx.count("contexts_with_two_parameterisations_of_one_family", (!multi.is_empty()) as u64);
    let c = prog.ctx.clone();
    let inst = match guard(move || run_instantiation_pass(c)) {
        Ok(Ok(m)) => m.get_context(),
        Ok(Err(e)) => {
            let msg = super::mpc_common::first_line(&e.to_string());
            // attribute: custom nodes that report the same name for the same argument types
            // although the operations (parameters) differ
            let culprit = colliding_names(&prog.ctx);
            ctx.violation(
                &format!("C08|instantiation_failed|{}|{}", msg, culprit),
                json!({"what": format!("run_instantiation_pass rejected a context whose nodes all type-checked: {}", msg),
                       "ops": prog.ops, "context": serde_json::to_string(&prog.ctx).unwrap_or_default()}),
            );
            return;
        }
        Err(p) => {
            ctx.violation(
                &format!("C08|instantiation_panic|{}", p.site),
                json!({"what": p.message, "ops": prog.ops}),
            );
            return;
        }
    };
    ctx.count("instantiated", 1);
    let n_draws = ctx.q(2, 4);
    let mut compared = 0;
    for d in 0..n_draws {
        let fill = if d == 0 { Fill::Small } else { pick_fill(&mut ctx.rng) };
        let inputs: Vec<Value> = prog.input_types.iter().map(|t| rand_value(&mut ctx.rng, t, fill)).collect();
        // reference: every Custom node evaluated through its own fresh single-operation instantiation
        let mut obs = Obs::new(ctx.rng.seed16());
        obs.custom_on_the_fly = true;
        let want = {
            let (c, ins, o) = (prog.ctx.clone(), inputs.clone(), &mut obs);
            guard(move || {
                o.preprocess(&c)?;
                o.evaluate_context(c, ins)
            })
        };
        ctx.count("reference_custom_evaluations", obs.custom_evals);
        let want = match want {
            Ok(Ok(v)) => v,
            _ => {
                ctx.count("reference_eval_failed", 1);
                continue;
            }
        };
        let got = {
            let (c, ins) = (inst.clone(), inputs.clone());
            let seed = ctx.rng.seed16();
            guard(move || {
                let mut e = SimpleEvaluator::new(Some(seed))?;
                e.preprocess(&c)?;
                e.evaluate_context(c, ins)
            })
        };
        ctx.count("evaluation_pairs", 1);
        match got {
            Ok(Ok(v)) => {
                compared += 1;
                if v != want {
                    // find the first differing output component
                    let (a, b) = (v.to_vector().unwrap_or_default(), want.to_vector().unwrap_or_default());
                    let k = (0..a.len().min(b.len())).find(|i| a[*i] != b[*i]).unwrap_or(0);
                    let fam = prog.out_families.get(k).cloned().unwrap_or_else(|| "nested".into());
                    ctx.violation(
                        &format!("C08|value_mismatch|{}", fam),
                        json!({"what": format!("instantiated context differs from per-operation instantiation at output component {}", k),
                               "ops": prog.ops, "context": serde_json::to_string(&prog.ctx).unwrap_or_default(),
                               "inputs": inputs.iter().map(value_json).collect::<Vec<_>>()}),
                    );
                    break;
                }
            }
            Ok(Err(e)) => {
                ctx.violation(
                    "C08|instantiated_eval_error",
                    json!({"what": format!("instantiated context fails where the reference evaluates: {}",
                                           e.to_string().lines().next().unwrap_or("")), "ops": prog.ops}),
                );
                break;
            }
            Err(p) => {
                ctx.violation(&format!("C08|instantiated_eval_panic|{}", p.site), json!({"what": p.message, "ops": prog.ops}));
                break;
            }
        }
    }
    ctx.case_done(prog.hash, compared > 0 && prog.ops.len() >= 2);
    if idx < 48 {
        ctx.sample(json!({"ops": prog.ops, "probe": probe}));
    }
}

pub fn run(ctx: &mut Ctx) {
    // systematic collision probe: every family, two parameterisations on identical argument types
    let reps = ctx.q(20u64, 200);
    ctx.cases("probe", FAMILIES.len() as u64 * reps, |ctx, idx| {
        let fam = FAMILIES[(idx % FAMILIES.len() as u64) as usize];
        one(ctx, Some(fam), idx);
    });
    let total = ctx.q(15000, 200000);
    ctx.cases("mix", total, |ctx, idx| {
        one(ctx, None, idx);
    });
}
