//! C11 — the graph-building API keeps contexts well-formed; failed calls have no effect.
//! History + sequential transition model + invariant walker at the quiescent point after every
//! call. The model is a transition relation over the hook's plain-data dump of the private
//! context state: for every call kind it says what the post-state must be given the pre-state.

use crate::ctx::{guard, Ctx};
use crate::gen::builder::{rand_array_type, Flavor, B};
use crate::rng::mix;
use crate::val::*;
use ciphercore_base::data_types::{array_type, scalar_type, Type, BIT, UINT64};
use ciphercore_base::graphs::{
    create_context, Context, Graph, GraphAnnotation, Node, NodeAnnotation, Operation, VerifContextDump,
};
use serde_json::json;
use std::cell::RefCell;
use std::rc::Rc;

#[derive(Clone, Debug)]
pub enum Call {
    /// add a node to graph g of context c (any operation)
    AddNode { c: usize, g: usize },
    CreateGraph { c: usize },
    SetNodeName { c: usize, g: usize, n: usize, name: String },
    SetGraphName { c: usize, g: usize, name: String },
    AnnotateNode { c: usize, g: usize, n: usize },
    AnnotateGraph { c: usize, g: usize },
    SetOutput { c: usize, g: usize, n: usize, foreign: bool },
    FinalizeGraph { c: usize, g: usize },
    SetMain { c: usize, g: usize, foreign: bool },
    FinalizeContext { c: usize },
    /// read-only calls (getters, lookups)
    Read { c: usize },
}

pub struct Monitor {
    pub ctxs: Vec<Context>,
    pub last: Vec<(String, VerifContextDump)>,
    pub violations: Vec<(String, String)>,
    pub calls: u64,
    pub errs: u64,
    pub oks: u64,
    pub rollbacks_checked: u64,
    pub walker_runs: u64,
    pub history: Vec<String>,
}

fn snapshot(c: &Context) -> (String, VerifContextDump) {
    (serde_json::to_string(c).unwrap_or_else(|e| format!("<serialize error {}>", e)), c.verif_dump())
}

/// Invariant walker over the plain-data dump.
pub fn walk(d: &VerifContextDump) -> Result<(), String> {
    let ng = d.graphs.len();
    for (i, g) in d.graphs.iter().enumerate() {
        if g.id != i as u64 {
            return Err(format!("graph at position {} has id {}", i, g.id));
        }
        if !g.context_is_owner {
            return Err(format!("graph {} does not point back to its context", i));
        }
        for (j, n) in g.nodes.iter().enumerate() {
            if n.id != j as u64 {
                return Err(format!("node at position {} of graph {} has id {}", j, i, n.id));
            }
            if !n.graph_is_owner || n.graph_id != i as u64 {
                return Err(format!("node {} of graph {} does not point back to its graph", j, i));
            }
            for (dg, dn, in_place) in n.deps.iter() {
                if *dg != i as u64 {
                    return Err(format!("node ({},{}) depends on a node of graph {}", i, j, dg));
                }
                if *dn >= j as u64 {
                    return Err(format!("node ({},{}) depends on node {} which does not precede it", i, j, dn));
                }
                if !in_place {
                    return Err(format!("node ({},{}) depends on a node object that is not stored at id {}", i, j, dn));
                }
            }
            for (gg, fin, same_ctx, in_place) in n.graph_deps.iter() {
                if !same_ctx || !in_place {
                    return Err(format!("node ({},{}) calls a graph of another context / not stored in this one", i, j));
                }
                if *gg >= i as u64 {
                    return Err(format!("node ({},{}) calls graph {} which is not older", i, j, gg));
                }
                if !fin {
                    return Err(format!("node ({},{}) calls graph {} which is not finalized", i, j, gg));
                }
            }
            // (a node without a CACHED type is legitimate: some typing rules do not cache their
            // result; that every node has a valid inferred type is checked through get_type())
        }
        match &g.output {
            Some((og, on, in_place)) => {
                if *og != i as u64 || *on >= g.nodes.len() as u64 || !in_place {
                    return Err(format!("output of graph {} is not one of its nodes", i));
                }
            }
            None => {
                if g.finalized {
                    return Err(format!("graph {} is finalized without an output node", i));
                }
            }
        }
    }
    if let Some((m, in_place)) = &d.main_graph {
        if *m >= ng as u64 || !in_place {
            return Err("main graph is not a graph of this context".to_string());
        }
        if !d.graphs[*m as usize].finalized {
            return Err("main graph is not finalized".to_string());
        }
    }
    if d.finalized {
        if d.main_graph.is_none() {
            return Err("finalized context without main graph".to_string());
        }
        if d.graphs.iter().any(|g| !g.finalized) {
            return Err("finalized context with an unfinalized graph".to_string());
        }
    }
    // name tables: mutually inverse, no entry for something that does not exist
    let mut inv: Vec<(String, u64)> = d.graphs_names.iter().map(|(g, n)| (n.clone(), *g)).collect();
    inv.sort();
    if inv != d.graphs_names_inverse {
        return Err(format!("graph name tables are not inverse: {:?} vs {:?}", d.graphs_names, d.graphs_names_inverse));
    }
    for (g, _) in d.graphs_names.iter() {
        if *g >= ng as u64 {
            return Err(format!("name entry for non-existent graph {}", g));
        }
    }
    let mut fwd: Vec<(u64, String, u64)> = d.nodes_names.iter().map(|((g, n), s)| (*g, s.clone(), *n)).collect();
    fwd.sort();
    let mut back: Vec<(u64, String, u64)> = vec![];
    for (g, m) in d.nodes_names_inverse.iter() {
        for (s, n) in m.iter() {
            back.push((*g, s.clone(), *n));
        }
    }
    back.sort();
    if fwd != back {
        return Err(format!("node name tables are not inverse: {:?} vs {:?}", fwd, back));
    }
    for ((g, n), _) in d.nodes_names.iter() {
        if *g >= ng as u64 || *n >= d.graphs[*g as usize].nodes.len() as u64 {
            return Err(format!("name entry for non-existent node ({},{})", g, n));
        }
    }
    for ((g, n), _) in d.nodes_annotations.iter() {
        if *g >= ng as u64 || *n >= d.graphs[*g as usize].nodes.len() as u64 {
            return Err(format!("annotation entry for non-existent node ({},{})", g, n));
        }
    }
    for (g, _) in d.graphs_annotations.iter() {
        if *g >= ng as u64 {
            return Err(format!("annotation entry for non-existent graph {}", g));
        }
    }
    for (g, n) in d.type_cache_keys.iter() {
        if *g >= ng as u64 || *n >= d.graphs[*g as usize].nodes.len() as u64 {
            return Err(format!("type-cache entry for non-existent node ({},{})", g, n));
        }
    }
    Ok(())
}

impl Monitor {
    pub fn new(ctxs: Vec<Context>) -> Monitor {
        let last = ctxs.iter().map(snapshot).collect();
        Monitor { ctxs, last, violations: vec![], calls: 0, errs: 0, oks: 0, rollbacks_checked: 0, walker_runs: 0, history: vec![] }
    }

    fn viol(&mut self, sig: String, what: String) {
        if self.violations.len() < 4 {
            self.violations.push((sig, what));
        }
    }

    /// Called at the quiescent point after every API call.
    pub fn after(&mut self, call: &Call, ok: bool, what: &str) {
        self.calls += 1;
        if ok {
            self.oks += 1;
        } else {
            self.errs += 1;
        }
        if self.history.len() < 400 {
            self.history.push(format!("{:?} {} -> {}", call, what, if ok { "Ok" } else { "Err" }));
        }
        for ci in 0..self.ctxs.len() {
            let (text, dump) = snapshot(&self.ctxs[ci]);
            let (pre_text, pre) = self.last[ci].clone();
            let target = match call {
                Call::AddNode { c, .. } | Call::CreateGraph { c } | Call::SetNodeName { c, .. } | Call::SetGraphName { c, .. }
                | Call::AnnotateNode { c, .. } | Call::AnnotateGraph { c, .. } | Call::SetOutput { c, .. }
                | Call::FinalizeGraph { c, .. } | Call::SetMain { c, .. } | Call::FinalizeContext { c } | Call::Read { c } => *c,
            };
            self.walker_runs += 1;
            if let Err(e) = walk(&dump) {
                let kind = e.split(|ch: char| ch.is_ascii_digit() || ch == '(').next().unwrap_or("").trim().to_string();
                self.viol(format!("C11|ill_formed|{}", kind), format!("after {:?} ({}): {}", call, what, e));
            }
            if ci != target || !ok || matches!(call, Call::Read { .. }) {
                // a failed call, a read-only call, or a call on the other context: nothing may change
                self.rollbacks_checked += 1;
                if dump != pre || text != pre_text {
                    let kind = if ci != target {
                        "other_context_changed".to_string()
                    } else if matches!(call, Call::Read { .. }) {
                        "read_changed_state".to_string()
                    } else {
                        format!("failed_call_changed_state|{}", call_kind(call))
                    };
                    let diff = describe_diff(&pre, &dump);
                    self.viol(format!("C11|{}|{}", kind, diff.0), format!("{:?} ({}) returned {} but the context changed: {}",
                        call, what, if ok { "Ok" } else { "Err" }, diff.1));
                }
            } else {
                // successful mutator on this context: the post-state must be the model's prediction
                let mut exp = pre.clone();
                let mut must_reject: Option<&str> = None;
                match call {
                    Call::AddNode { g, .. } => {
                        if pre.finalized {
                            must_reject = Some("context is finalized");
                        } else if pre.graphs[*g].finalized {
                            must_reject = Some("graph is finalized");
                        }
                        // one more node at the end of graph g, described by the post-state
                        if dump.graphs.len() == pre.graphs.len() && dump.graphs[*g].nodes.len() == pre.graphs[*g].nodes.len() + 1 {
                            let new = dump.graphs[*g].nodes.last().unwrap().clone();
                            exp.graphs[*g].nodes.push(new);
                            let key = (*g as u64, pre.graphs[*g].nodes.len() as u64);
                            if dump.type_cache_keys.contains(&key) {
                                exp.type_cache_keys.push(key);
                                exp.type_cache_keys.sort();
                            }
                            if dump.total_size_nodes >= pre.total_size_nodes {
                                exp.total_size_nodes = dump.total_size_nodes;
                            }
                        }
                    }
                    Call::CreateGraph { .. } => {
                        if pre.finalized {
                            must_reject = Some("context is finalized");
                        }
                        if dump.graphs.len() == pre.graphs.len() + 1 {
                            let new = dump.graphs.last().unwrap().clone();
                            if new.nodes.is_empty() && !new.finalized && new.output.is_none() {
                                exp.graphs.push(new);
                            }
                        }
                    }
                    Call::SetNodeName { g, n, name, .. } => {
                        if pre.finalized {
                            must_reject = Some("context is finalized");
                        }
                        if pre.nodes_names.iter().any(|((gg, nn), s)| (*gg == *g as u64 && *nn == *n as u64) || (*gg == *g as u64 && s == name)) {
                            must_reject = Some("node already named / name taken");
                        }
                        exp.nodes_names.push(((*g as u64, *n as u64), name.clone()));
                        exp.nodes_names.sort();
                        match exp.nodes_names_inverse.iter_mut().find(|(gg, _)| *gg == *g as u64) {
                            Some((_, m)) => {
                                m.push((name.clone(), *n as u64));
                                m.sort();
                            }
                            None => {
                                exp.nodes_names_inverse.push((*g as u64, vec![(name.clone(), *n as u64)]));
                                exp.nodes_names_inverse.sort();
                            }
                        }
                    }
                    Call::SetGraphName { g, name, .. } => {
                        if pre.finalized {
                            must_reject = Some("context is finalized");
                        }
                        if pre.graphs_names.iter().any(|(gg, s)| *gg == *g as u64 || s == name) {
                            must_reject = Some("graph already named / name taken");
                        }
                        exp.graphs_names.push((*g as u64, name.clone()));
                        exp.graphs_names.sort();
                        exp.graphs_names_inverse.push((name.clone(), *g as u64));
                        exp.graphs_names_inverse.sort();
                    }
                    Call::AnnotateNode { g, n, .. } => {
                        if pre.finalized {
                            must_reject = Some("context is finalized");
                        }
                        // the appended annotation is taken from the post-state
                        let key = (*g as u64, *n as u64);
                        let post_list = dump.nodes_annotations.iter().find(|(k, _)| *k == key).map(|(_, v)| v.clone()).unwrap_or_default();
                        let pre_list = pre.nodes_annotations.iter().find(|(k, _)| *k == key).map(|(_, v)| v.clone()).unwrap_or_default();
                        if post_list.len() == pre_list.len() + 1 && post_list[..pre_list.len()] == pre_list[..] {
                            exp.nodes_annotations.retain(|(k, _)| *k != key);
                            exp.nodes_annotations.push((key, post_list));
                            exp.nodes_annotations.sort_by_key(|(k, _)| *k);
                        }
                    }
                    Call::AnnotateGraph { g, .. } => {
                        if pre.finalized {
                            must_reject = Some("context is finalized");
                        }
                        let key = *g as u64;
                        let post_list = dump.graphs_annotations.iter().find(|(k, _)| *k == key).map(|(_, v)| v.clone()).unwrap_or_default();
                        let pre_list = pre.graphs_annotations.iter().find(|(k, _)| *k == key).map(|(_, v)| v.clone()).unwrap_or_default();
                        if post_list.len() == pre_list.len() + 1 && post_list[..pre_list.len()] == pre_list[..] {
                            exp.graphs_annotations.retain(|(k, _)| *k != key);
                            exp.graphs_annotations.push((key, post_list));
                            exp.graphs_annotations.sort_by_key(|(k, _)| *k);
                        }
                    }
                    Call::SetOutput { g, n, foreign, .. } => {
                        if pre.graphs[*g].finalized {
                            must_reject = Some("graph is finalized");
                        }
                        if *foreign {
                            must_reject = Some("node of another graph");
                        }
                        exp.graphs[*g].output = Some((*g as u64, *n as u64, true));
                    }
                    Call::FinalizeGraph { g, .. } => {
                        if pre.graphs[*g].output.is_none() {
                            must_reject = Some("graph has no output node");
                        }
                        exp.graphs[*g].finalized = true;
                    }
                    Call::SetMain { g, foreign, .. } => {
                        if pre.main_graph.is_some() {
                            must_reject = Some("main graph already set");
                        }
                        if *foreign {
                            must_reject = Some("graph of another context");
                        } else if !pre.graphs[*g].finalized {
                            must_reject = Some("graph is not finalized");
                        }
                        if pre.finalized {
                            must_reject = Some("context is finalized");
                        }
                        exp.main_graph = Some((*g as u64, true));
                    }
                    Call::FinalizeContext { .. } => {
                        if pre.main_graph.is_none() || pre.graphs.iter().any(|g| !g.finalized) {
                            must_reject = Some("unfinalized graph or no main graph");
                        }
                        exp.finalized = true;
                    }
                    Call::Read { .. } => {}
                }
                if let Some(reason) = must_reject {
                    self.viol(
                        format!("C11|mutation_accepted|{}|{}", call_kind(call), reason),
                        format!("{:?} ({}) returned Ok although {}", call, what, reason),
                    );
                }
                if exp != dump {
                    let diff = describe_diff(&exp, &dump);
                    self.viol(
                        format!("C11|unexpected_post_state|{}|{}", call_kind(call), diff.0),
                        format!("after a successful {:?} ({}) the context differs from the model's prediction: {}", call, what, diff.1),
                    );
                }
            }
            self.last[ci] = (text, dump);
        }
    }
}

fn call_kind(c: &Call) -> &'static str {
    match c {
        Call::AddNode { .. } => "add_node",
        Call::CreateGraph { .. } => "create_graph",
        Call::SetNodeName { .. } => "set_node_name",
        Call::SetGraphName { .. } => "set_graph_name",
        Call::AnnotateNode { .. } => "annotate_node",
        Call::AnnotateGraph { .. } => "annotate_graph",
        Call::SetOutput { .. } => "set_output",
        Call::FinalizeGraph { .. } => "finalize_graph",
        Call::SetMain { .. } => "set_main",
        Call::FinalizeContext { .. } => "finalize_context",
        Call::Read { .. } => "read",
    }
}

/// (short field tag, description)
fn describe_diff(a: &VerifContextDump, b: &VerifContextDump) -> (String, String) {
    if a.graphs.len() != b.graphs.len() {
        return ("graph_count".into(), format!("{} graphs vs {}", a.graphs.len(), b.graphs.len()));
    }
    for (i, (x, y)) in a.graphs.iter().zip(b.graphs.iter()).enumerate() {
        if x.nodes.len() != y.nodes.len() {
            return ("node_list".into(), format!("graph {}: {} nodes vs {}", i, x.nodes.len(), y.nodes.len()));
        }
        if x.nodes != y.nodes {
            return ("node_contents".into(), format!("graph {}: node contents differ", i));
        }
        if x.finalized != y.finalized {
            return ("graph_finalized".into(), format!("graph {} finalized {} vs {}", i, x.finalized, y.finalized));
        }
        if x.output != y.output {
            return ("output".into(), format!("graph {} output {:?} vs {:?}", i, x.output, y.output));
        }
    }
    if a.finalized != b.finalized {
        return ("context_finalized".into(), format!("{} vs {}", a.finalized, b.finalized));
    }
    if a.main_graph != b.main_graph {
        return ("main_graph".into(), format!("{:?} vs {:?}", a.main_graph, b.main_graph));
    }
    if a.graphs_names != b.graphs_names || a.graphs_names_inverse != b.graphs_names_inverse {
        return ("graph_names".into(), format!("{:?}/{:?} vs {:?}/{:?}", a.graphs_names, a.graphs_names_inverse, b.graphs_names, b.graphs_names_inverse));
    }
    if a.nodes_names != b.nodes_names || a.nodes_names_inverse != b.nodes_names_inverse {
        return ("node_names".into(), format!("{:?} vs {:?}", a.nodes_names, b.nodes_names));
    }
    if a.nodes_annotations != b.nodes_annotations {
        return ("node_annotations".into(), format!("{:?} vs {:?}", a.nodes_annotations, b.nodes_annotations));
    }
    if a.graphs_annotations != b.graphs_annotations {
        return ("graph_annotations".into(), format!("{:?} vs {:?}", a.graphs_annotations, b.graphs_annotations));
    }
    if a.type_cache_keys != b.type_cache_keys {
        let extra: Vec<_> = b.type_cache_keys.iter().filter(|k| !a.type_cache_keys.contains(k)).collect();
        let missing: Vec<_> = a.type_cache_keys.iter().filter(|k| !b.type_cache_keys.contains(k)).collect();
        return ("type_cache".into(), format!("type cache: extra {:?} missing {:?}", extra, missing));
    }
    if a.total_size_nodes != b.total_size_nodes {
        return ("total_size".into(), format!("{} vs {}", a.total_size_nodes, b.total_size_nodes));
    }
    ("serialized_text".into(), "only the serialized text differs".into())
}

type Mon = Rc<RefCell<Monitor>>;

/// types that exist only as types: valid ones whose size estimate overflows or that exhaust the
/// context's total size when added twice, and an invalid one
fn giant_type(rng: &mut crate::rng::Rng) -> Type {
    match rng.below(6) {
        0 => array_type(vec![1 << 57], UINT64),
        1 => array_type(vec![1 << 60], UINT64),
        2 => array_type(vec![1 << 58], UINT64),
        3 => array_type(vec![1 << 31, 1 << 31], BIT),
        4 => array_type(vec![1 << 62], BIT),
        _ => array_type(vec![1 << 40, 1 << 30, 1 << 20], UINT64),
    }
}

pub fn run(ctx: &mut Ctx) {
    let total = ctx.q(120000, 1600000);
    ctx.cases("histories", total, |ctx, idx| {
        let n_ctx = if ctx.rng.chance(1, 3) { 2 } else { 1 };
        let ctxs: Vec<Context> = (0..n_ctx).map(|_| create_context().unwrap()).collect();
        let mon: Mon = Rc::new(RefCell::new(Monitor::new(ctxs.clone())));
        let n_calls = ctx.rng.range(30, 120);
        let mut name_counter = 0u64;
        for _ in 0..n_calls {
            let c = ctx.rng.usize(n_ctx);
            let graphs: Vec<Graph> = ctxs[c].get_graphs();
            let pick_graph = |rng: &mut crate::rng::Rng, gs: &Vec<Graph>| -> Option<(usize, Graph)> {
                if gs.is_empty() {
                    None
                } else {
                    let i = rng.usize(gs.len());
                    Some((i, gs[i].clone()))
                }
            };
            let r = guard(|| {
                match ctx.rng.below(24) {
                    0..=1 => {
                        if graphs.len() < 6 || ctx.rng.chance(1, 4) {
                            let r = ctxs[c].create_graph();
                            mon.borrow_mut().after(&Call::CreateGraph { c }, r.is_ok(), "create_graph");
                        }
                    }
                    2..=12 => {
                        // add a node: through the typed builder (valid and invalid proposals), or a crafted bad one
                        if let Some((gi, g)) = pick_graph(&mut ctx.rng, &graphs) {
                            let call = Call::AddNode { c, g: gi };
                            match ctx.rng.below(12) {
                                0 => {
                                    let st = crate::val::ALL_ST[ctx.rng.usize(11)];
                                    let t = rand_array_type(&mut ctx.rng, st, 3, 3);
                                    let r = g.input(t);
                                    mon.borrow_mut().after(&call, r.is_ok(), "input");
                                }
                                1 => {
                                    // dependency from another graph / another context
                                    let other_c = ctx.rng.usize(n_ctx);
                                    let ogs = ctxs[other_c].get_graphs();
                                    if let Some((ogi, og)) = pick_graph(&mut ctx.rng, &ogs) {
                                        let ons = og.get_nodes();
                                        if !ons.is_empty() && !(other_c == c && ogi == gi) {
                                            let d = ons[ctx.rng.usize(ons.len())].clone();
                                            let r = g.add_node(vec![d.clone(), d], vec![], Operation::Add);
                                            mon.borrow_mut().after(&call, r.is_ok(), "add with foreign dependency");
                                        }
                                    }
                                }
                                2 => {
                                    let gt = giant_type(&mut ctx.rng);
                                    let r = g.input(gt);
                                    mon.borrow_mut().after(&call, r.is_ok(), "input of a giant type");
                                }
                                3 => {
                                    // add_node_with_type: matching type, or an invalid one
                                    let ns = g.get_nodes();
                                    if let Some(a) = ns.iter().find(|n| matches!(n.get_type(), Ok(Type::Array(_, _)) | Ok(Type::Scalar(_)))) {
                                        let t_ok = a.get_type().unwrap();
                                        let bad = ctx.rng.bool();
                                        let t = if bad { array_type(vec![0, 3], t_ok.get_scalar_type()) } else { t_ok };
                                        let r = g.add_node_with_type(vec![a.clone(), a.clone()], vec![], Operation::Add, t);
                                        mon.borrow_mut().after(&call, r.is_ok(), if bad { "add_node_with_type(invalid type)" } else { "add_node_with_type" });
                                    }
                                }
                                4 => {
                                    // call / iterate across graphs: callee may be unfinalized, younger, or foreign
                                    let other_c = if ctx.rng.chance(1, 5) { ctx.rng.usize(n_ctx) } else { c };
                                    let ogs = ctxs[other_c].get_graphs();
                                    if let Some((_, callee)) = pick_graph(&mut ctx.rng, &ogs) {
                                        let ns = g.get_nodes();
                                        let args: Vec<Node> = ns.iter().take(ctx.rng.usize(3)).cloned().collect();
                                        let r = if ctx.rng.bool() || args.len() < 2 {
                                            g.call(callee, args)
                                        } else {
                                            g.iterate(callee, args[0].clone(), args[1].clone())
                                        };
                                        mon.borrow_mut().after(&call, r.is_ok(), "call/iterate");
                                    }
                                }
                                _ => {
                                    if g.get_nodes().is_empty() {
                                        let r = g.input(scalar_type(BIT));
                                        mon.borrow_mut().after(&call, r.is_ok(), "input");
                                    } else {
                                        let mut b = B::new(g.clone(), &mut ctx.rng, Flavor::Any);
                                        b.allow_custom = false;
                                        // nodes of giant types exist only as types: never compute with them
                                        b.pool = g
                                            .get_nodes()
                                            .into_iter()
                                            .filter(|n| {
                                                n.get_type()
                                                    .ok()
                                                    .and_then(|t| ciphercore_base::data_types::get_size_in_bits(t).ok())
                                                    .map(|b| b <= 1 << 16)
                                                    .unwrap_or(false)
                                            })
                                            .collect();
                                        if b.pool.is_empty() {
                                            return;
                                        }
                                        let m2 = mon.clone();
                                        let call2 = call.clone();
                                        b.on_result = Some(Box::new(move |ok: bool, name: &str| {
                                            m2.borrow_mut().after(&call2, ok, name);
                                        }));
                                        // callees available to the builder: finalized older graphs of this context
                                        b.step_any();
                                    }
                                }
                            }
                        }
                    }
                    13..=14 => {
                        if let Some((gi, g)) = pick_graph(&mut ctx.rng, &graphs) {
                            let ns = g.get_nodes();
                            if !ns.is_empty() {
                                let ni = ctx.rng.usize(ns.len());
                                // fresh name, or a duplicate of an earlier one
                                let name = if ctx.rng.chance(1, 3) && name_counter > 0 {
                                    format!("n{}", ctx.rng.below(name_counter))
                                } else {
                                    name_counter += 1;
                                    format!("n{}", name_counter - 1)
                                };
                                let r = ns[ni].set_name(&name);
                                mon.borrow_mut().after(&Call::SetNodeName { c, g: gi, n: ni, name: name.clone() }, r.is_ok(), "set_name");
                            }
                        }
                    }
                    15 => {
                        if let Some((gi, g)) = pick_graph(&mut ctx.rng, &graphs) {
                            let name = if ctx.rng.chance(1, 3) && name_counter > 0 {
                                format!("g{}", ctx.rng.below(name_counter))
                            } else {
                                name_counter += 1;
                                format!("g{}", name_counter - 1)
                            };
                            let r = g.set_name(&name);
                            mon.borrow_mut().after(&Call::SetGraphName { c, g: gi, name: name.clone() }, r.is_ok(), "graph set_name");
                        }
                    }
                    16 => {
                        if let Some((gi, g)) = pick_graph(&mut ctx.rng, &graphs) {
                            let ns = g.get_nodes();
                            if !ns.is_empty() && ctx.rng.bool() {
                                let ni = ctx.rng.usize(ns.len());
                                let a = match ctx.rng.below(3) {
                                    0 => NodeAnnotation::AssociativeOperation,
                                    1 => NodeAnnotation::Private,
                                    _ => NodeAnnotation::Send(ctx.rng.below(3), ctx.rng.below(3)),
                                };
                                let r = ns[ni].add_annotation(a);
                                mon.borrow_mut().after(&Call::AnnotateNode { c, g: gi, n: ni }, r.is_ok(), "node add_annotation");
                            } else {
                                let a = match ctx.rng.below(3) {
                                    0 => GraphAnnotation::AssociativeOperation,
                                    1 => GraphAnnotation::OneBitState,
                                    _ => GraphAnnotation::SmallState,
                                };
                                let r = g.add_annotation(a);
                                mon.borrow_mut().after(&Call::AnnotateGraph { c, g: gi }, r.is_ok(), "graph add_annotation");
                            }
                        }
                    }
                    17..=18 => {
                        if let Some((gi, g)) = pick_graph(&mut ctx.rng, &graphs) {
                            // own node, or a node of another graph
                            let foreign = ctx.rng.chance(1, 5);
                            let src = if foreign {
                                let oc = ctx.rng.usize(n_ctx);
                                let ogs = ctxs[oc].get_graphs();
                                pick_graph(&mut ctx.rng, &ogs).filter(|(ogi, _)| !(oc == c && *ogi == gi)).map(|x| x.1)
                            } else {
                                Some(g.clone())
                            };
                            if let Some(sg) = src {
                                let ns = sg.get_nodes();
                                if !ns.is_empty() {
                                    let ni = ctx.rng.usize(ns.len());
                                    let r = g.set_output_node(ns[ni].clone());
                                    mon.borrow_mut().after(&Call::SetOutput { c, g: gi, n: ni, foreign }, r.is_ok(), "set_output_node");
                                }
                            }
                        }
                    }
                    19..=20 => {
                        if let Some((gi, g)) = pick_graph(&mut ctx.rng, &graphs) {
                            let r = g.finalize();
                            mon.borrow_mut().after(&Call::FinalizeGraph { c, g: gi }, r.is_ok(), "graph finalize");
                        }
                    }
                    21 => {
                        let foreign = n_ctx > 1 && ctx.rng.chance(1, 4);
                        let src_c = if foreign { 1 - c } else { c };
                        let ogs = ctxs[src_c].get_graphs();
                        if let Some((gi, g)) = pick_graph(&mut ctx.rng, &ogs) {
                            let r = ctxs[c].set_main_graph(g);
                            mon.borrow_mut().after(&Call::SetMain { c, g: gi, foreign }, r.is_ok(), "set_main_graph");
                        }
                    }
                    22 => {
                        if ctx.rng.chance(1, 3) {
                            let r = ctxs[c].finalize();
                            mon.borrow_mut().after(&Call::FinalizeContext { c }, r.is_ok(), "context finalize");
                        }
                    }
                    _ => {
                        // read-only calls
                        let _ = ctxs[c].get_num_graphs();
                        let _ = ctxs[c].get_main_graph();
                        let _ = ctxs[c].retrieve_graph("g0");
                        let _ = ctxs[c].get_graph_by_id(ctx.rng.below(8));
                        let _ = ctxs[c].get_node_by_global_id((ctx.rng.below(8), ctx.rng.below(40)));
                        if let Some((_, g)) = pick_graph(&mut ctx.rng, &graphs) {
                            let _ = g.get_num_nodes();
                            let _ = g.get_output_node();
                            let _ = g.retrieve_node("n0");
                            let _ = g.get_name();
                            let _ = g.get_annotations();
                            for n in g.get_nodes().iter().take(5) {
                                let _ = n.get_type();
                                let _ = n.get_name();
                                let _ = n.get_annotations();
                            }
                        }
                        mon.borrow_mut().after(&Call::Read { c }, true, "getters");
                    }
                }
            });
            if let Err(p) = r {
                mon.borrow_mut().viol(
                    format!("C11|api_panic|{}", p.site),
                    format!("a graph-building call panicked: {} @ {}", p.message, p.site),
                );
                break;
            }
            if !mon.borrow().violations.is_empty() {
                break;
            }
        }
        // public getters must agree with the dump (model) at the end of the history
        for (ci, c) in ctxs.iter().enumerate() {
            let d = mon.borrow().last[ci].1.clone();
            let mut bad: Option<String> = None;
            if c.get_num_graphs() != d.graphs.len() as u64 {
                bad = Some("get_num_graphs".into());
            }
            for (gi, g) in c.get_graphs().iter().enumerate() {
                if g.get_id() != gi as u64 || g.get_num_nodes() != d.graphs[gi].nodes.len() as u64 {
                    bad = Some("graph id / get_num_nodes".into());
                }
                for n in g.get_nodes().iter() {
                    match n.get_type() {
                        Ok(t) if t.is_valid() => {}
                        _ => bad = Some("get_type (stored node without a valid inferred type)".into()),
                    }
                }
                let out = g.get_output_node().ok().map(|n| n.get_id());
                if out != d.graphs[gi].output.map(|o| o.1) {
                    bad = Some("get_output_node".into());
                }
                for ((gg, nn), name) in d.nodes_names.iter() {
                    if *gg == gi as u64 {
                        match g.retrieve_node(name) {
                            Ok(n) if n.get_id() == *nn && n.get_name().ok().flatten().as_deref() == Some(name.as_str()) => {}
                            _ => bad = Some("retrieve_node / get_name".into()),
                        }
                    }
                }
                for (gg, name) in d.graphs_names.iter() {
                    if *gg == gi as u64 {
                        match c.retrieve_graph(name) {
                            Ok(x) if x.get_id() == *gg && g.get_name().ok().as_deref() == Some(name.as_str()) => {}
                            _ => bad = Some("retrieve_graph / get_name".into()),
                        }
                    }
                }
            }
            if let Some(b) = bad {
                mon.borrow_mut().viol(format!("C11|getter_disagrees|{}", b), format!("public getter {} disagrees with the context state", b));
            }
        }
        let m = mon.borrow();
        ctx.count("histories", 1);
        ctx.count("api_calls", m.calls);
        ctx.count("calls_ok", m.oks);
        ctx.count("calls_err", m.errs);
        ctx.count("no_effect_checks", m.rollbacks_checked);
        ctx.count("walker_runs", m.walker_runs);
        ctx.count("two_context_histories", (n_ctx == 2) as u64);
        for (sig, what) in m.violations.iter() {
            let tail: Vec<String> = m.history.iter().rev().take(12).rev().cloned().collect();
            ctx.violation(sig, json!({"what": what, "last_calls": tail, "calls_in_history": m.calls}));
        }
        let h = mix(&[idx, m.calls, m.errs, crate::rng::fnv(m.history.join(";").as_bytes())]);
        let nontrivial = m.errs >= 3 && m.oks >= 10;
        let sample = if idx < 32 { Some(m.history.iter().take(14).cloned().collect::<Vec<_>>()) } else { None };
        drop(m);
        ctx.case_done(h, nontrivial);
        if let Some(s) = sample {
            ctx.sample(json!({"first_calls": s}));
        }
    });
}
