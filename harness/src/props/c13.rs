//! C13 — values encode integers faithfully, in bytes and in JSON.
//! Oracle: the harness' own implementation of the documented layout (val.rs) and native
//! two's-complement arithmetic; JSON texts are also logged for an offline Python checker that
//! parses them with Python's arbitrary-precision `json`.

use crate::ctx::{guard, Ctx};
use crate::rng::{fnv, mix, Rng};
use crate::val::*;
use ciphercore_base::data_types::{
    array_type, named_tuple_type, scalar_type, tuple_type, vector_type, ScalarType, Type, BIT,
};
use ciphercore_base::data_values::Value;
use ciphercore_base::typed_value::TypedValue;
use ciphercore_base::typed_value_operations::TypedValueOperations;
use serde_json::{json, Value as J};
use std::io::Write;

fn sign_extend(x: u128, st: ScalarType) -> u128 {
    to_signed(x, st) as u128
}

fn boundary_ints(st: ScalarType) -> Vec<u128> {
    let w = st_bits(st);
    let m = mask(w);
    let mut v = vec![0u128, 1, m, m.wrapping_sub(1) & m];
    for j in 0..w {
        let p = 1u128 << j;
        for d in [0i128, 1, -1] {
            v.push((p as i128).wrapping_add(d) as u128 & m);
            v.push(((p as i128).wrapping_neg()).wrapping_add(d) as u128 & m);
        }
    }
    v.sort();
    v.dedup();
    v
}

fn check_ints(ctx: &mut Ctx, st: ScalarType, ints: &[u128]) {
    let w = st_bits(st);
    let t = array_type(vec![ints.len() as u64], st);
    let want_bytes = encode(ints, st);
    // writers
    let mut values: Vec<(String, Value)> = vec![];
    match guard(|| Value::from_flattened_array(ints, st)) {
        Ok(Ok(v)) => values.push(("from_flattened_array<u128>".into(), v)),
        Ok(Err(e)) => ctx.violation(
            &format!("C13|writer_error|u128|{}", st_name(st)),
            json!({"what": format!("from_flattened_array rejected in-range integers: {}", e)}),
        ),
        Err(p) => ctx.violation(
            &format!("C13|panic|{}", p.site),
            json!({"what": format!("from_flattened_array panicked: {}", p.message)}),
        ),
    }
    if w > 1 {
        // signed writer: the signed interpretation must give the same bytes
        let signed: Vec<i128> = ints.iter().map(|x| sign_extend(*x, st) as i128).collect();
        let signed: Vec<i128> = if st_signed(st) {
            signed
        } else {
            // unsigned type written from negative numbers (value - 2^w for w < 128)
            ints.iter()
                .map(|x| if w < 128 { (*x as i128) - (1i128 << w) } else { *x as i128 })
                .collect()
        };
        match guard(|| Value::from_flattened_array(&signed, st)) {
            Ok(Ok(v)) => values.push(("from_flattened_array<i128>".into(), v)),
            Ok(Err(e)) => ctx.violation(
                &format!("C13|writer_error|i128|{}", st_name(st)),
                json!({"what": format!("from_flattened_array<i128> rejected: {}", e)}),
            ),
            Err(p) => ctx.violation(
                &format!("C13|panic|{}", p.site),
                json!({"what": format!("from_flattened_array<i128> panicked: {}", p.message)}),
            ),
        }
        if w <= 64 {
            let small: Vec<u64> = ints.iter().map(|x| *x as u64).collect();
            if let Ok(Ok(v)) = guard(|| Value::from_flattened_array_u64(&small, st)) {
                values.push(("from_flattened_array_u64<u64>".into(), v));
            }
            let smalli: Vec<i64> = ints.iter().map(|x| sign_extend(*x, st) as i64).collect();
            if let Ok(Ok(v)) = guard(|| Value::from_flattened_array(&smalli, st)) {
                values.push(("from_flattened_array<i64>".into(), v));
            }
        }
    }
    ctx.count("writer_calls", values.len() as u64);
    for (wname, v) in values.iter() {
        let got = v.access_bytes(|b| Ok(b.to_vec())).unwrap_or_default();
        if got != want_bytes {
            let bad = (0..ints.len())
                .find(|i| {
                    let nb = (w / 8).max(1) as usize;
                    w > 1 && got.get(i * nb..(i + 1) * nb) != want_bytes.get(i * nb..(i + 1) * nb)
                })
                .unwrap_or(0);
            ctx.violation(
                &format!("C13|bytes_mismatch|{}|{}", wname, st_name(st)),
                json!({"what": "bytes differ from the documented little-endian / LSB-first layout",
                       "scalar_type": st_name(st), "writer": wname,
                       "first_bad_int": format!("{}", ints[bad]),
                       "got": hex(&got[..got.len().min(64)]), "want": hex(&want_bytes[..want_bytes.len().min(64)])}),
            );
            continue;
        }
        // readers: every width
        let ext: Vec<u128> = ints.iter().map(|x| sign_extend(*x, st)).collect();
        macro_rules! reader {
            ($name:expr, $call:ident, $ty:ty) => {
                match guard(|| v.$call(t.clone())) {
                    Ok(Ok(r)) => {
                        ctx.count("reader_calls", 1);
                        let want: Vec<$ty> = ext.iter().map(|x| *x as $ty).collect();
                        if r != want {
                            let i = (0..want.len()).find(|i| r[*i] != want[*i]).unwrap_or(0);
                            ctx.violation(
                                &format!("C13|reader_mismatch|{}|{}", $name, st_name(st)),
                                json!({"what": "reader does not return the integer modulo the width, sign-extended",
                                       "scalar_type": st_name(st), "reader": $name,
                                       "int": format!("{}", ints[i]), "got": format!("{}", r[i]),
                                       "want": format!("{}", want[i])}),
                            );
                        }
                    }
                    Ok(Err(e)) => ctx.violation(
                        &format!("C13|reader_error|{}|{}", $name, st_name(st)),
                        json!({"what": format!("{}", e)}),
                    ),
                    Err(p) => ctx.violation(
                        &format!("C13|panic|{}", p.site),
                        json!({"what": format!("{} panicked: {}", $name, p.message)}),
                    ),
                }
            };
        }
        reader!("to_flattened_array_u8", to_flattened_array_u8, u8);
        reader!("to_flattened_array_i8", to_flattened_array_i8, i8);
        reader!("to_flattened_array_u16", to_flattened_array_u16, u16);
        reader!("to_flattened_array_i16", to_flattened_array_i16, i16);
        reader!("to_flattened_array_u32", to_flattened_array_u32, u32);
        reader!("to_flattened_array_i32", to_flattened_array_i32, i32);
        reader!("to_flattened_array_u64", to_flattened_array_u64, u64);
        reader!("to_flattened_array_i64", to_flattened_array_i64, i64);
        reader!("to_flattened_array_u128", to_flattened_array_u128, u128);
        reader!("to_flattened_array_i128", to_flattened_array_i128, i128);
        // check_type: right type and near-miss types
        let near: Vec<(Type, bool)> = {
            let n = ints.len() as u64;
            let mut v2 = vec![(t.clone(), true)];
            let step = if w == 1 { 8 } else { 1 };
            v2.push((array_type(vec![n + step], st), false));
            if n > step {
                v2.push((array_type(vec![n - step], st), false));
            }
            for st2 in ALL_ST.iter() {
                let bytes2 = ((st_bits(*st2) as u64 * n) + 7) / 8;
                let bytes1 = ((w as u64 * n) + 7) / 8;
                if bytes2 != bytes1 {
                    v2.push((array_type(vec![n], *st2), false));
                }
            }
            v2.push((tuple_type(vec![t.clone()]), false));
            v2.push((vector_type(1, t.clone()), false));
            v2
        };
        for (nt, want) in near {
            ctx.count("check_type_calls", 1);
            match guard(|| v.check_type(nt.clone())) {
                Ok(Ok(b)) if b == want => {}
                Ok(Ok(b)) => ctx.violation(
                    &format!("C13|check_type|{}|{}", st_name(st), want),
                    json!({"what": format!("check_type({}) returned {} for a value laid out as {}", nt, b, t)}),
                ),
                Ok(Err(e)) => ctx.violation(
                    &format!("C13|check_type_error|{}", st_name(st)),
                    json!({"what": format!("{}", e)}),
                ),
                Err(p) => ctx.violation(
                    &format!("C13|panic|{}", p.site),
                    json!({"what": format!("check_type panicked: {}", p.message)}),
                ),
            }
        }
    }
    // scalar API on a few elements
    for x in ints.iter().take(8) {
        if w == 1 {
            continue;
        }
        let sx = sign_extend(*x, st);
        if let Ok(Ok(v)) = guard(|| Value::from_scalar(sx as i128, st)) {
            ctx.count("scalar_roundtrips", 1);
            let bytes = v.access_bytes(|b| Ok(b.to_vec())).unwrap_or_default();
            if bytes != encode(&[*x], st) {
                ctx.violation(
                    &format!("C13|scalar_bytes|{}", st_name(st)),
                    json!({"what": "from_scalar bytes differ from the layout", "int": format!("{}", x)}),
                );
            }
            let checks: Vec<(&str, u128, u128)> = vec![
                ("to_u64", v.to_u64(st).map(|r| r as u128).unwrap_or(u128::MAX), (sx as u64) as u128),
                ("to_i64", v.to_i64(st).map(|r| r as u64 as u128).unwrap_or(u128::MAX), (sx as u64) as u128),
                ("to_u128", v.to_u128(st).unwrap_or(0), sx),
                ("to_i128", v.to_i128(st).map(|r| r as u128).unwrap_or(0), sx),
                ("to_u8", v.to_u8(st).map(|r| r as u128).unwrap_or(u128::MAX), (sx as u8) as u128),
                ("to_i32", v.to_i32(st).map(|r| r as u32 as u128).unwrap_or(u128::MAX), (sx as u32) as u128),
                ("to_u16", v.to_u16(st).map(|r| r as u128).unwrap_or(u128::MAX), (sx as u16) as u128),
            ];
            for (name, got, want) in checks {
                if got != want {
                    ctx.violation(
                        &format!("C13|scalar_reader|{}|{}", name, st_name(st)),
                        json!({"what": "scalar reader mismatch", "int": format!("{}", x),
                               "got": format!("{}", got), "want": format!("{}", want)}),
                    );
                }
            }
        }
    }
}

pub fn rand_nested_type(rng: &mut Rng, depth: u32) -> Type {
    let st = *rng.pick(&ALL_ST);
    if depth == 0 || rng.chance(2, 5) {
        return if rng.bool() {
            scalar_type(st)
        } else {
            let rank = rng.range(1, 3);
            array_type((0..rank).map(|_| rng.range(1, 4)).collect(), st)
        };
    }
    match rng.below(3) {
        0 => {
            let n = rng.range(0, 3);
            tuple_type((0..n).map(|_| rand_nested_type(rng, depth - 1)).collect())
        }
        1 => {
            let n = rng.range(0, 3);
            vector_type(n, rand_nested_type(rng, depth - 1))
        }
        _ => {
            let n = rng.range(1, 3);
            named_tuple_type(
                (0..n)
                    .map(|i| (format!("field{}", i), rand_nested_type(rng, depth - 1)))
                    .collect(),
            )
        }
    }
}

fn fmt_int(x: u128, st: ScalarType) -> String {
    if st_signed(st) {
        format!("{}", to_signed(x, st))
    } else {
        format!("{}", x & mask(st_bits(st)))
    }
}

/// types equal except for the element type of empty vectors (which the JSON form cannot carry)
fn equal_modulo_empty_vectors(a: &Type, b: &Type) -> bool {
    match (a, b) {
        (Type::Vector(0, _), Type::Vector(0, _)) => true,
        (Type::Vector(n, x), Type::Vector(m, y)) => n == m && equal_modulo_empty_vectors(x, y),
        (Type::Tuple(x), Type::Tuple(y)) => {
            x.len() == y.len() && x.iter().zip(y.iter()).all(|(p, q)| equal_modulo_empty_vectors(p, q))
        }
        (Type::NamedTuple(x), Type::NamedTuple(y)) => {
            x.len() == y.len()
                && x.iter().zip(y.iter()).all(|((n1, p), (n2, q))| n1 == n2 && equal_modulo_empty_vectors(p, q))
        }
        _ => a == b,
    }
}

/// expected model of the JSON form, with integers as decimal strings
fn json_model(v: &Value, t: &Type) -> J {
    match t {
        Type::Scalar(st) => {
            let x = ints_of_value(v, t).unwrap()[0];
            json!({"k": "scalar", "st": st_name(*st), "v": fmt_int(x, *st)})
        }
        Type::Array(shape, st) => {
            let xs = ints_of_value(v, t).unwrap();
            json!({"k": "array", "st": st_name(*st), "shape": shape,
                   "v": xs.iter().map(|x| fmt_int(*x, *st)).collect::<Vec<_>>()})
        }
        Type::Vector(_, et) => {
            let kids = v.to_vector().unwrap();
            json!({"k": "vector", "v": kids.iter().map(|k| json_model(k, et)).collect::<Vec<_>>()})
        }
        Type::Tuple(ts) => {
            let kids = v.to_vector().unwrap();
            json!({"k": "tuple", "v": kids.iter().zip(ts.iter()).map(|(k, kt)| json_model(k, kt)).collect::<Vec<_>>()})
        }
        Type::NamedTuple(ts) => {
            let kids = v.to_vector().unwrap();
            json!({"k": "named tuple", "v": kids.iter().zip(ts.iter()).map(|(k, (n, kt))| json!({"name": n, "value": json_model(k, kt)})).collect::<Vec<_>>()})
        }
    }
}

pub fn run(ctx: &mut Ctx) {
    // Phase A: integers of every scalar type (exhaustive for <= 16 bits)
    let chunk = 256usize;
    for st in ALL_ST.iter().cloned() {
        let w = st_bits(st);
        if w == 1 {
            continue;
        }
        if w <= 16 {
            let total = (1u64 << w) / chunk as u64;
            ctx.cases(&format!("exhaustive.{}", st_name(st)), total.max(1), |ctx, idx| {
                let lo = idx as u128 * chunk as u128;
                let ints: Vec<u128> = (0..chunk as u128).map(|i| (lo + i) & mask(w)).collect();
                check_ints(ctx, st, &ints);
                ctx.count(&format!("ints.{}", st_name(st)), ints.len() as u64);
                ctx.case_done(mix(&[fnv(st_name(st).as_bytes()), idx]), true);
            });
        } else {
            let b = boundary_ints(st);
            let nb = (b.len() + chunk - 1) / chunk;
            ctx.cases(&format!("boundary.{}", st_name(st)), nb as u64, |ctx, idx| {
                let lo = idx as usize * chunk;
                let ints = &b[lo..(lo + chunk).min(b.len())];
                check_ints(ctx, st, ints);
                ctx.count(&format!("ints.{}", st_name(st)), ints.len() as u64);
                ctx.case_done(mix(&[fnv(st_name(st).as_bytes()), 1000 + idx]), true);
            });
            let total = ctx.q(100, 2000);
            ctx.cases(&format!("uniform.{}", st_name(st)), total, |ctx, idx| {
                let ints: Vec<u128> = (0..chunk).map(|_| ctx.rng.next_u128() & mask(w)).collect();
                check_ints(ctx, st, &ints);
                ctx.count(&format!("ints.{}", st_name(st)), ints.len() as u64);
                ctx.case_done(mix(&[fnv(st_name(st).as_bytes()), 2000 + idx]), true);
            });
        }
    }
    // Phase B: bit arrays of every length 1..70 (several fillings each), ragged shapes
    let reps = ctx.q(120, 1200);
    ctx.cases("bits", 70 * reps, |ctx, idx| {
        let n = (idx % 70 + 1) as usize;
        let bits: Vec<u128> = match (idx / 70) % 4 {
            0 => vec![1; n],
            1 => (0..n).map(|i| (i % 2) as u128).collect(),
            _ => (0..n).map(|_| (ctx.rng.next_u64() & 1) as u128).collect(),
        };
        check_ints(ctx, BIT, &bits);
        ctx.count("ints.b", n as u64);
        // ragged 2-d shape with the same number of elements
        if n % 3 == 0 {
            let t2 = array_type(vec![3, (n / 3) as u64], BIT);
            if let Ok(Ok(v)) = guard(|| Value::from_flattened_array(&bits, BIT)) {
                match guard(|| v.check_type(t2.clone())) {
                    Ok(Ok(true)) => {}
                    _ => ctx.violation("C13|check_type|b|ragged", json!({"what": format!("{} rejected", t2)})),
                }
            }
        }
        ctx.case_done(mix(&[7, idx]), true);
    });
    // Phase C: typed values through the human-readable JSON form
    let aux = std::env::var("VX_AUX_DIR").ok();
    let mut aux_file = aux.map(|d| {
        std::fs::create_dir_all(&d).ok();
        std::fs::File::create(format!("{}/c13_json_{}.jsonl", d, ctx.shard)).unwrap()
    });
    let total = ctx.q(100000, 1000000);
    ctx.cases("json", total, |ctx, idx| {
        let depth = (idx % 5) as u32;
        let t = rand_nested_type(&mut ctx.rng, depth);
        let fill = pick_fill(&mut ctx.rng);
        let v = rand_value(&mut ctx.rng, &t, fill);
        let tv = match guard(|| TypedValue::new(t.clone(), v.clone())) {
            Ok(Ok(tv)) => tv,
            Ok(Err(e)) => {
                ctx.violation(
                    "C13|typed_value_new_rejected",
                    json!({"what": format!("TypedValue::new rejected a matching value: {}", e), "type": format!("{}", t)}),
                );
                return;
            }
            Err(p) => {
                ctx.violation(&format!("C13|panic|{}", p.site), json!({"what": p.message, "type": format!("{}", t)}));
                return;
            }
        };
        let s = match guard(|| serde_json::to_string(&tv)) {
            Ok(Ok(s)) => s,
            Ok(Err(e)) => {
                ctx.violation(
                    "C13|json_serialize_error",
                    json!({"what": format!("{}", e), "type": format!("{}", t)}),
                );
                return;
            }
            Err(p) => {
                ctx.violation(&format!("C13|panic|{}", p.site), json!({"what": p.message, "type": format!("{}", t)}));
                return;
            }
        };
        ctx.count("json_roundtrips", 1);
        match guard(|| serde_json::from_str::<TypedValue>(&s)) {
            Ok(Ok(tv2)) => {
                let eq = guard(|| tv.is_equal(&tv2));
                match eq {
                    Ok(Ok(true)) => {}
                    Ok(Ok(false)) => {
                        let kind = if tv2.t == tv.t {
                            "value_changed"
                        } else if equal_modulo_empty_vectors(&tv.t, &tv2.t) {
                            "type_changed|empty_vector_element_type"
                        } else {
                            "type_changed"
                        };
                        ctx.violation(
                            &format!("C13|json_roundtrip|{}", kind),
                            json!({"what": "typed value parsed back from its JSON form is not equal",
                                   "type": format!("{}", t), "type_back": format!("{}", tv2.t), "json": s}),
                        );
                    }
                    Ok(Err(e)) => ctx.violation(
                        "C13|is_equal_error",
                        json!({"what": format!("{}", e), "type": format!("{}", t), "json": s}),
                    ),
                    Err(p) => ctx.violation(
                        &format!("C13|panic|{}", p.site),
                        json!({"what": p.message, "type": format!("{}", t), "json": s}),
                    ),
                }
            }
            Ok(Err(e)) => ctx.violation(
                "C13|json_parse_error",
                json!({"what": format!("own JSON output rejected: {}", e), "type": format!("{}", t), "json": s}),
            ),
            Err(p) => ctx.violation(
                &format!("C13|panic|{}", p.site),
                json!({"what": p.message, "type": format!("{}", t), "json": s}),
            ),
        }
        if let Some(f) = aux_file.as_mut() {
            let rec = json!({"case": ctx.case_key, "json": s, "model": json_model(&v, &t)});
            let _ = writeln!(f, "{}", rec);
        }
        let mut h = vec![];
        canon(&v, &mut h);
        h.extend_from_slice(format!("{}", t).as_bytes());
        let nontrivial = depth > 0 || matches!(t, Type::Array(_, _));
        ctx.case_done(fnv(&h), nontrivial);
        if idx < 64 {
            ctx.sample(json!({"type": format!("{}", t), "json": s.chars().take(300).collect::<String>()}));
        }
    });
}
