//! C18 — sorting is a stable sort; permutation application and inversion agree; the compiled
//! secure sort returns exactly the plaintext result.

use super::custom_common::{build_context, eval_instantiated};
use super::mpc_common::*;
use crate::ctx::Ctx;
use crate::rng::{mix, Rng};
use crate::val::*;
use ciphercore_base::custom_ops::CustomOperation;
use ciphercore_base::data_types::{array_type, named_tuple_type, tuple_type, ScalarType, Type, BIT, UINT64};
use ciphercore_base::data_values::Value;
use ciphercore_base::graphs::Context;
use ciphercore_base::ops::integer_key_sort::SortByIntegerKey;
use serde_json::json;

pub struct Table {
    pub t: Type,
    pub cols: Vec<(String, Type, Vec<u128>)>,
    pub n: usize,
}

/// row width of a column (elements per row)
fn row_len(t: &Type) -> usize {
    match t {
        Type::Array(s, _) => s[1..].iter().product::<u64>() as usize,
        _ => 1,
    }
}

pub fn gen_table(rng: &mut Rng, n: usize, key_bits: Option<usize>, key_st: Option<ScalarType>) -> Table {
    let mut cols: Vec<(String, Type, Vec<u128>)> = vec![];
    // key column with heavy duplication
    let distinct = rng.range(1, 3);
    let pattern = rng.below(4);
    let key_t = match (key_bits, key_st) {
        (Some(b), _) => array_type(vec![n as u64, b as u64], BIT),
        (None, Some(st)) => array_type(vec![n as u64], st),
        _ => unreachable!(),
    };
    let kst = key_t.get_scalar_type();
    let rl = row_len(&key_t);
    let pool: Vec<Vec<u128>> = (0..distinct.max(1))
        .map(|_| {
            (0..rl)
                .map(|_| {
                    let f = if rng.bool() { Fill::Extreme } else { Fill::Uniform };
                    rand_int(rng, kst, f)
                })
                .collect()
        })
        .collect();
    let mut keys: Vec<Vec<u128>> = (0..n)
        .map(|_| match pattern {
            0 => pool[rng.usize(pool.len())].clone(),
            _ => (0..rl).map(|_| rand_int(rng, kst, Fill::Uniform)).collect(),
        })
        .collect();
    if pattern == 2 {
        keys.sort();
    }
    if pattern == 3 {
        keys.sort();
        keys.reverse();
    }
    let key_pos = rng.usize(3);
    let n_payload = rng.range(0, 3) as usize;
    let mut names = vec![];
    for i in 0..n_payload {
        names.push(format!("c{}", i));
    }
    names.insert(key_pos.min(names.len()), "key".to_string());
    for name in names {
        if name == "key" {
            cols.push((name, key_t.clone(), keys.iter().flatten().cloned().collect()));
        } else {
            let st = *rng.pick(&ALL_ST);
            let mut shape = vec![n as u64];
            for _ in 0..rng.below(3) {
                shape.push(rng.range(1, 3));
            }
            let t = array_type(shape, st);
            let cnt = n * row_len(&t);
            let vals: Vec<u128> = (0..cnt).map(|_| rand_int(rng, st, Fill::Uniform)).collect();
            cols.push((name, t, vals));
        }
    }
    let t = named_tuple_type(cols.iter().map(|(n, t, _)| (n.clone(), t.clone())).collect());
    Table { t, cols, n }
}

impl Table {
    pub fn value(&self) -> Value {
        Value::from_vector(
            self.cols.iter().map(|(_, t, v)| value_of_ints(v, t.get_scalar_type())).collect(),
        )
    }
    /// reference stable sort: returns the expected columns
    pub fn sorted(&self, numeric: bool) -> Vec<Vec<u128>> {
        let (_, kt, kv) = self.cols.iter().find(|(n, _, _)| n == "key").unwrap();
        let rl = row_len(kt);
        let kst = kt.get_scalar_type();
        let mut order: Vec<usize> = (0..self.n).collect();
        if numeric {
            // numeric value of the integer key (two's complement when signed): order-preserving
            // map into u128 (flip the sign bit for signed types)
            let w = st_bits(kst);
            let flip = if st_signed(kst) { 1u128 << (w - 1) } else { 0 };
            order.sort_by_key(|i| (kv[*i] & mask(w)) ^ flip);
        } else {
            // lexicographic order of the bit strings, index 0 first
            order.sort_by(|a, b| kv[a * rl..(a + 1) * rl].cmp(&kv[b * rl..(b + 1) * rl]));
        }
        self.cols
            .iter()
            .map(|(_, t, v)| {
                let r = row_len(t);
                order.iter().flat_map(|i| v[i * r..(i + 1) * r].to_vec()).collect()
            })
            .collect()
    }
    pub fn decode(&self, v: &Value) -> Option<Vec<Vec<u128>>> {
        let parts = v.to_vector().ok()?;
        if parts.len() != self.cols.len() {
            return None;
        }
        let mut out = vec![];
        for (p, (_, t, _)) in parts.iter().zip(self.cols.iter()) {
            out.push(ints_of_value(p, t)?);
        }
        Some(out)
    }
}

fn sort_context(tab: &Table, integer: bool) -> Result<Context, String> {
    build_context(&[tab.t.clone()], |g, i| {
        if integer {
            g.custom_op(CustomOperation::new(SortByIntegerKey { key: "key".into() }), vec![i[0].clone()])
        } else {
            g.sort(i[0].clone(), "key".into())
        }
    })
}

fn check_sorted(ctx: &mut Ctx, tab: &Table, got: &Value, integer: bool, tag: &str) {
    let want = tab.sorted(integer);
    match tab.decode(got) {
        None => ctx.violation(&format!("C18|result_shape|{}", tag), json!({"what": "sorted table has the wrong shape", "type": format!("{}", tab.t)})),
        Some(cols) => {
            ctx.count("tables_compared", 1);
            ctx.count("rows_compared", tab.n as u64);
            if cols != want {
                // classify: keys ordered but rows with equal keys out of input order / payload not moved with key
                let ki = tab.cols.iter().position(|(n, _, _)| n == "key").unwrap();
                let kind = if cols[ki] == want[ki] { "payload_or_stability" } else { "key_order" };
                ctx.violation(
                    &format!("C18|wrong_sort|{}|{}", tag, kind),
                    json!({"what": "sorted table differs from the reference stable sort", "type": format!("{}", tab.t),
                           "input": value_json(&tab.value()), "got": value_json(got)}),
                );
            }
        }
    }
}

/// mostly the small size, now and then a table of hundreds of rows (long runs of equal keys,
/// several radix passes with carried order)
fn big_or(rng: &mut Rng, small: usize, one_in: u64, lo: u64, hi: u64) -> usize {
    if rng.chance(1, one_in) {
        rng.range(lo, hi) as usize
    } else {
        small
    }
}

pub fn run(ctx: &mut Ctx) {
    // plaintext Sort: bit-string keys
    let total = ctx.q(30000, 300000);
    ctx.cases("plain_sort", total, |ctx, idx| {
        let n = big_or(&mut ctx.rng, (idx % 12 + 1) as usize, 60, 40, 700);
        if n > 12 {
            ctx.count("big_tables", 1);
        }
        let b = ((idx / 12) % 10 + 1) as usize;
        let tab = gen_table(&mut ctx.rng, n, Some(b), None);
        let c = match sort_context(&tab, false) {
            Ok(c) => c,
            Err(e) => {
                ctx.violation("C18|sort_rejected", json!({"what": e, "type": format!("{}", tab.t)}));
                return;
            }
        };
        match eval_single(&c, vec![tab.value()], ctx.rng.seed16()) {
            Ok(v) => check_sorted(ctx, &tab, &v, false, "plain"),
            Err(e) => ctx.violation("C18|sort_failed", json!({"what": e, "type": format!("{}", tab.t)})),
        }
        ctx.count(&format!("key_width.{}", b), 1);
        ctx.case_done(mix(&[idx, 1, crate::rng::fnv(format!("{}", tab.t).as_bytes())]), n >= 2);
        if idx < 24 {
            ctx.sample(json!({"phase": "plain_sort", "type": format!("{}", tab.t), "rows": n}));
        }
    });
    // SortByIntegerKey: all 11 key types
    let total = ctx.q(11000, 110000);
    ctx.cases("integer_sort", total, |ctx, idx| {
        let st = ALL_ST[(idx % 11) as usize];
        let n = big_or(&mut ctx.rng, ((idx / 11) % 12 + 1) as usize, 60, 40, 700);
        if n > 12 {
            ctx.count("big_tables", 1);
        }
        let tab = gen_table(&mut ctx.rng, n, None, Some(st));
        let c = match sort_context(&tab, true) {
            Ok(c) => c,
            Err(e) => {
                ctx.violation(&format!("C18|integer_sort_rejected|{}", st_name(st)), json!({"what": e, "type": format!("{}", tab.t)}));
                return;
            }
        };
        match eval_instantiated(&c, None, vec![tab.value()], ctx.rng.seed16()) {
            Ok(v) => check_sorted(ctx, &tab, &v, true, &format!("integer_key|{}", if st_signed(st) { "signed" } else { "unsigned" })),
            Err(e) => ctx.violation(&format!("C18|integer_sort_failed|{}", st_name(st)), json!({"what": e, "type": format!("{}", tab.t)})),
        }
        ctx.count(&format!("int_key.{}", st_name(st)), 1);
        ctx.case_done(mix(&[idx, 2, crate::rng::fnv(format!("{}", tab.t).as_bytes())]), n >= 2);
    });
    // permutations: apply then apply-inverse restores the array
    let total = ctx.q(12000, 120000);
    ctx.cases("permutations", total, |ctx, idx| {
        // all permutations for n <= 5 (by index), random ones up to 12
        let (n, perm): (usize, Vec<u128>) = if idx < 153 {
            // 1! + 2! + 3! + 4! + 5! = 153
            let mut k = idx as usize;
            let mut n = 1;
            let mut f = 1;
            loop {
                if k < f {
                    break;
                }
                k -= f;
                n += 1;
                f *= n;
            }
            // k-th permutation of n
            let mut items: Vec<u128> = (0..n as u128).collect();
            let mut p = vec![];
            let mut ff = f;
            let mut kk = k;
            for i in (1..=n).rev() {
                ff /= i;
                p.push(items.remove(kk / ff));
                kk %= ff;
            }
            (n, p)
        } else {
            let small = ctx.rng.range(1, 12) as usize;
            let n = big_or(&mut ctx.rng, small, 60, 40, 700);
            let mut p: Vec<u128> = (0..n as u128).collect();
            ctx.rng.shuffle(&mut p);
            (n, p)
        };
        let st = *ctx.rng.pick(&ALL_ST);
        let mut shape = vec![n as u64];
        for _ in 0..ctx.rng.below(3) {
            shape.push(ctx.rng.range(1, 3));
        }
        let t = array_type(shape, st);
        let pt = array_type(vec![n as u64], UINT64);
        let c = match build_context(&[t.clone(), pt.clone()], |g, i| {
            let y = g.apply_permutation(i[0].clone(), i[1].clone())?;
            let z = g.apply_inverse_permutation(y.clone(), i[1].clone())?;
            let y2 = g.apply_inverse_permutation(i[0].clone(), i[1].clone())?;
            let z2 = g.apply_permutation(y2, i[1].clone())?;
            let ip = g.inverse_permutation(i[1].clone())?;
            let z3 = g.apply_permutation(y.clone(), ip)?;
            g.create_tuple(vec![y, z, z2, z3])
        }) {
            Ok(c) => c,
            Err(e) => {
                ctx.violation("C18|permutation_graph_rejected", json!({"what": e}));
                return;
            }
        };
        let x = rand_value(&mut ctx.rng, &t, Fill::Uniform);
        match eval_single(&c, vec![x.clone(), value_of_ints(&perm, UINT64)], ctx.rng.seed16()) {
            Ok(v) => {
                let parts = v.to_vector().unwrap_or_default();
                ctx.count("permutation_round_trips", 1);
                if parts.len() != 4 || parts[1] != x || parts[2] != x || parts[3] != x {
                    ctx.violation(
                        "C18|permutation_round_trip",
                        json!({"what": "applying a permutation and then its inverse does not restore the array",
                               "perm": perm.iter().map(|p| *p as u64).collect::<Vec<_>>(), "type": format!("{}", t)}),
                    );
                } else {
                    // the permuted array is a row permutation of the input
                    let rl = row_len(&t);
                    let xi = ints_of_value(&x, &t).unwrap();
                    let yi = ints_of_value(&parts[0], &t).unwrap();
                    let mut a: Vec<&[u128]> = xi.chunks(rl.max(1)).collect();
                    let mut b: Vec<&[u128]> = yi.chunks(rl.max(1)).collect();
                    a.sort();
                    b.sort();
                    if a != b {
                        ctx.violation("C18|permutation_not_a_row_permutation", json!({"what": "permuted array is not a rearrangement of the rows"}));
                    }
                }
            }
            Err(e) => ctx.violation("C18|permutation_eval_failed", json!({"what": e})),
        }
        ctx.case_done(mix(&[3, n as u64, crate::rng::fnv(format!("{:?}", perm).as_bytes())]), n >= 2);
    });
    // compiled secure sort / permutation = plaintext
    let total = ctx.q(800, 8000);
    ctx.cases("compiled", total, |ctx, idx| {
        let kind = idx % 4;
        let small = ctx.rng.range(1, 8) as usize;
        let n = big_or(&mut ctx.rng, small, 40, 24, 160);
        if n > 8 {
            ctx.count("big_compiled", 1);
        }
        let (c, inputs, types, label): (Context, Vec<Value>, Vec<Type>, String) = match kind {
            0 | 1 => {
                let b = ctx.rng.range(1, 7) as usize;
                let tab = gen_table(&mut ctx.rng, n, Some(b), None);
                match sort_context(&tab, false) {
                    Ok(c) => (c, vec![tab.value()], vec![tab.t.clone()], format!("Sort key_bits={}", b)),
                    Err(_) => return,
                }
            }
            2 => {
                let st = *ctx.rng.pick(&ALL_ST);
                let tab = gen_table(&mut ctx.rng, n, None, Some(st));
                match sort_context(&tab, true) {
                    Ok(c) => (c, vec![tab.value()], vec![tab.t.clone()], format!("SortByIntegerKey {}", st_name(st))),
                    Err(_) => return,
                }
            }
            _ => {
                let st = *ctx.rng.pick(&ALL_ST);
                let t = array_type(vec![n as u64, ctx.rng.range(1, 3)], st);
                let pt = array_type(vec![n as u64], UINT64);
                let inv = ctx.rng.bool();
                let mut p: Vec<u128> = (0..n as u128).collect();
                ctx.rng.shuffle(&mut p);
                let x = rand_value(&mut ctx.rng, &t, Fill::Uniform);
                match build_context(&[t.clone(), pt.clone()], |g, i| {
                    if inv { g.apply_inverse_permutation(i[0].clone(), i[1].clone()) } else { g.apply_permutation(i[0].clone(), i[1].clone()) }
                }) {
                    Ok(c) => (c, vec![x, value_of_ints(&p, UINT64)], vec![t, pt], format!("ApplyPermutation inverse={}", inv)),
                    Err(_) => return,
                }
            }
        };
        let mut cfg = rand_config(&mut ctx.rng, types.len());
        if kind == 3 {
            // the secure permutation protocol takes a PUBLIC permutation at this level (a private one
            // is a composition of three permutations produced inside the sort protocol; what the
            // compiler does with an additively shared permutation operand is examined under C01)
            cfg.owners[1] = Owner::Public;
        }
        let expected = match source_eval(&c, &inputs, ctx.rng.seed16()) {
            Ok(v) => v,
            Err(_) => {
                ctx.count("source_eval_failed", 1);
                return;
            }
        };
        let out_type = c.get_main_graph().unwrap().get_output_node().unwrap().get_type().unwrap();
        let compiled = match compile(&c, &cfg, ctx.rng.seed16()) {
            Compiled::Ok(x) => x,
            Compiled::Rejected(m) => {
                ctx.count("compile_rejected", 1);
                ctx.count(&format!("rejected.{}", m), 1);
                return;
            }
            Compiled::Panicked(p) => {
                ctx.violation(&format!("C18|compile_panic|{}", p.site), json!({"what": p.message, "op": label, "config": cfg.describe()}));
                return;
            }
        };
        ctx.count("compiled", 1);
        ctx.count(&format!("compiled.{}", label.split(' ').next().unwrap_or("")), 1);
        for _ in 0..2 {
            let ins = inputs_single(&mut ctx.rng, &cfg, &types, &inputs);
            match eval_single(&compiled, ins, ctx.rng.seed16()) {
                Ok(v) => {
                    ctx.count("compiled_executions", 1);
                    if reveal_single(&cfg, &v, &out_type).ok().as_ref() != Some(&expected) {
                        ctx.violation(
                            &format!("C18|compiled_differs|{}", label.split(' ').next().unwrap_or("")),
                            json!({"what": "compiled secure sort / permutation differs from plaintext", "op": label, "config": cfg.describe(),
                                   "inputs": inputs.iter().map(value_json).collect::<Vec<_>>()}),
                        );
                    }
                }
                Err(e) => ctx.violation(&format!("C18|compiled_eval_error|{}", first_line(&e)), json!({"what": e, "op": label, "config": cfg.describe()})),
            }
        }
        for junk in [Fill::Zeros, Fill::Uniform] {
            let ins = inputs_party(&mut ctx.rng, &cfg, &types, &inputs, junk);
            let seeds = seeds3(&mut ctx.rng);
            let js = ctx.rng.next_u64();
            if let Ok(run) = run_parties(&compiled, &ins, seeds, js, None) {
                ctx.count("three_party_executions", 1);
                ctx.count("messages", run.msgs.len() as u64);
                for (kind, detail) in check_party_outputs(&cfg, &run, &expected, &out_type) {
                    ctx.violation(
                        &format!("C18|three_party|{}|{}", kind, label.split(' ').next().unwrap_or("")),
                        json!({"what": detail, "op": label, "config": cfg.describe(), "junk": format!("{:?}", junk)}),
                    );
                }
            }
        }
        ctx.case_done(mix(&[4, idx, crate::rng::fnv(cfg.describe().as_bytes())]), n >= 2);
        if idx < 16 {
            ctx.sample(json!({"phase": "compiled", "op": label, "config": cfg.describe(), "rows": n}));
        }
    });
    let _ = tuple_type(vec![]);
}
