//! C06 — graph optimisation preserves meaning and interface.
use super::opt_common::check_optimizer;
use crate::ctx::Ctx;
use crate::gen::inl::gen_inl;
use serde_json::json;

pub fn run(ctx: &mut Ctx) {
    let total = ctx.q(160000, 1600000);
    ctx.cases("ginl", total, |ctx, idx| {
        let prog = gen_inl(&mut ctx.rng);
        ctx.count("programs", 1);
        let mut seen = std::collections::BTreeSet::new();
        for o in prog.ops.iter() {
            if seen.insert(o.clone()) {
                ctx.count(&format!("op.{}", o), 1);
            }
        }
        let st = check_optimizer(ctx, "C06", &prog.ctx, &prog.input_types, &prog.ops, "ginl");
        let nontrivial = st.as_ref().map(|s| s.folded + s.removed + s.merged > 0).unwrap_or(false);
        ctx.case_done(prog.hash, nontrivial);
        if idx < 64 {
            ctx.sample(json!({"ops": prog.ops, "input_types": prog.input_types.iter().map(|t| format!("{}", t)).collect::<Vec<_>>(),
                              "folded": st.as_ref().map(|s| s.folded), "removed": st.as_ref().map(|s| s.removed),
                              "merged": st.as_ref().map(|s| s.merged)}));
        }
    });
}
