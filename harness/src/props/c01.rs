//! C01 (single global evaluator) and C02 (three separate parties) over generated programs.

use super::mpc_common::*;
use crate::ctx::Ctx;
use crate::gen::mpc::{gen_mpc, MpcProg};
use crate::rng::mix;
use crate::val::{pick_fill, rand_value, value_json, Fill};
use ciphercore_base::data_values::Value;
use ciphercore_base::graphs::{Context, NodeAnnotation, Operation};
use serde_json::json;

#[derive(Clone, Copy, PartialEq, Eq)]
pub enum Mode {
    Single,
    Party,
}

pub fn tolerated_abort(msg: &str) -> bool {
    // the hash-based join may abort (negligible probability); never a wrong table
    let m = msg.to_lowercase();
    m.contains("cuckoo") || m.contains("hash")
}

pub fn count_sends(c: &Context) -> u64 {
    let mut n = 0;
    if let Ok(g) = c.get_main_graph() {
        for node in g.get_nodes() {
            if let Ok(a) = node.get_annotations() {
                n += a.iter().filter(|x| matches!(x, NodeAnnotation::Send(_, _))).count() as u64;
            }
        }
    }
    n
}

pub fn run_program(ctx: &mut Ctx, mode: Mode, prog: &MpcProg, cfgs: &[Config], tag: &str) {
    let prop = ctx.prop.clone();
    let n_draws = ctx.q(2, 4);
    let n_seeds = ctx.q(1, 2);
    if max_node_bits(&prog.ctx) > GIANT_NODE_BITS {
        // a (dangling) node value of more than 16 MB: evaluating it is an allocation problem, not a case
        ctx.count("skipped_giant_node_program", 1);
        return;
    }
    let ctx_json = serde_json::to_string(&prog.ctx).unwrap_or_default();
    for cfg in cfgs.iter() {
        let key = format!("{}|{}", tag, cfg.inline_name);
        ctx.count("configs_tried", 1);
        let compiled = match compile(&prog.ctx, cfg, ctx.rng.seed16()) {
            Compiled::Ok(c) => c,
            Compiled::Rejected(msg) => {
                ctx.count("compile_rejected", 1);
                ctx.count(&format!("rejected.{}", msg), 1);
                continue;
            }
            Compiled::Panicked(p) => {
                ctx.violation(
                    &format!("{}|compile_panic|{}", prop, p.site),
                    json!({"what": "compile_context panicked", "message": p.message, "site": p.site,
                           "config": cfg.describe(), "context": ctx_json}),
                );
                continue;
            }
        };
        ctx.count("compiled", 1);
        ctx.count(&format!("inline.{}", cfg.inline_name), 1);
        for o in cfg.owners.iter() {
            ctx.count(&format!("owner.{}", o.name()), 1);
        }
        ctx.count(&format!("outs.{:?}", cfg.outs), 1);
        let n_nodes = compiled.get_main_graph().map(|g| g.get_num_nodes()).unwrap_or(0);
        ctx.count("compiled_nodes", n_nodes);
        let sends = count_sends(&compiled);
        ctx.count("send_markers", sends);
        // total size of the values one execution computes; the rare program whose compiled graph
        // works on hundreds of megabits (a sort of wide rows feeding a matrix product) would take
        // minutes per execution and is left out (counted)
        let work_bits = work_bits(&compiled);
        if ctx.trace {
            eprintln!("[vx] compiled nodes {} work_bits {}", n_nodes, work_bits);
        }
        if work_bits > HEAVY_WORK_BITS {
            ctx.count("skipped_heavy_program", 1);
            return;
        }
        let private = cfg.owners.iter().any(|o| *o != Owner::Public);
        let mut executed = false;
        for d in 0..n_draws {
            let fill = if d == 0 { Fill::Uniform } else { pick_fill(&mut ctx.rng) };
            let inputs: Vec<Value> = prog
                .input_types
                .iter()
                .map(|t| rand_value(&mut ctx.rng, t, fill))
                .collect();
            let expected = match source_eval(&prog.ctx, &inputs, ctx.rng.seed16()) {
                Ok(v) => v,
                Err(e) => {
                    ctx.count("source_eval_failed", 1);
                    ctx.count(&format!("source_fail.{}", first_line(&e)), 1);
                    continue;
                }
            };
            match mode {
                Mode::Single => {
                    for _ in 0..n_seeds {
                        let ins = inputs_single(&mut ctx.rng, cfg, &prog.input_types, &inputs);
                        ctx.count("executions", 1);
                        match eval_single(&compiled, ins, ctx.rng.seed16()) {
                            Err(e) => {
                                if tolerated_abort(&e) {
                                    ctx.count("tolerated_abort", 1);
                                    continue;
                                }
                                ctx.violation(
                                    &format!("{}|compiled_eval_error|{}", prop, first_line(&e)),
                                    json!({"what": "compiled graph fails where the source evaluates",
                                           "error": e, "config": cfg.describe(), "key": key,
                                           "ops": prog.ops, "context": ctx_json,
                                           "inputs": inputs.iter().map(value_json).collect::<Vec<_>>()}),
                                );
                            }
                            Ok(out) => {
                                executed = true;
                                ctx.count("disagreements_checked", 1);
                                match reveal_single(cfg, &out, &prog.out_type) {
                                    Ok(v) if v == expected => {}
                                    Ok(v) => ctx.violation(
                                        &format!("{}|value_mismatch", prop),
                                        json!({"what": "compiled result differs from source result",
                                               "config": cfg.describe(), "key": key, "ops": prog.ops,
                                               "context": ctx_json,
                                               "inputs": inputs.iter().map(value_json).collect::<Vec<_>>(),
                                               "expected": value_json(&expected), "got": value_json(&v)}),
                                    ),
                                    Err(e) => ctx.violation(
                                        &format!("{}|output_shape", prop),
                                        json!({"what": e, "config": cfg.describe(), "context": ctx_json}),
                                    ),
                                }
                            }
                        }
                    }
                }
                Mode::Party => {
                    let junks = [Fill::Zeros, Fill::Ones, Fill::Uniform, Fill::Uniform];
                    let n_j = if ctx.quick() { 3 } else { 4 };
                    for j in 0..n_j {
                        let ins =
                            inputs_party(&mut ctx.rng, cfg, &prog.input_types, &inputs, junks[j]);
                        let seeds = seeds3(&mut ctx.rng);
                        let js = ctx.rng.next_u64();
                        ctx.count("executions", 1);
                        match run_parties(&compiled, &ins, seeds, js, None) {
                            Err(e) => {
                                ctx.count(&format!("party_exec_skipped.{}", first_line(&e)), 1);
                            }
                            Ok(run) => {
                                executed = true;
                                ctx.count("messages", run.msgs.len() as u64);
                                let ec = run.edge_counts();
                                for s in 0..3 {
                                    for r in 0..3 {
                                        if ec[s][r] > 0 {
                                            ctx.count(&format!("edge.{}->{}", s, r), ec[s][r]);
                                        }
                                    }
                                }
                                for p in 0..3 {
                                    ctx.count("party_errors_on_junk", run.party_errors[p]);
                                    ctx.count("party_panics_on_junk", run.party_panics[p]);
                                }
                                ctx.count("disagreements_checked", 1);
                                let bad =
                                    check_party_outputs(cfg, &run, &expected, &prog.out_type);
                                for (kind, detail) in bad {
                                    if run.first_error.iter().flatten().any(|e| tolerated_abort(e)) {
                                        ctx.count("tolerated_abort", 1);
                                        continue;
                                    }
                                    ctx.violation(
                                        &format!("{}|{}|{}", prop, kind, tag),
                                        json!({"what": detail, "config": cfg.describe(), "key": key,
                                               "junk": format!("{:?}", junks[j]), "ops": prog.ops,
                                               "context": ctx_json,
                                               "inputs": inputs.iter().map(value_json).collect::<Vec<_>>(),
                                               "expected": value_json(&expected),
                                               "party_outputs": (0..3).map(|p| value_json(&run.output(p))).collect::<Vec<_>>()}),
                                    );
                                }
                            }
                        }
                    }
                }
            }
        }
        let nontrivial = executed && private && prog.ops.len() >= 2 && sends > 0;
        let h = mix(&[
            prog.hash,
            crate::rng::fnv(cfg.describe().as_bytes()),
        ]);
        ctx.case_done(h, nontrivial);
        if nontrivial {
            ctx.sample(json!({"ops": prog.ops, "config": cfg.describe(),
                              "input_types": prog.input_types.iter().map(|t| format!("{}", t)).collect::<Vec<_>>(),
                              "compiled_nodes": n_nodes, "send_markers": sends}));
        }
    }
}

pub fn has_op(c: &Context, f: impl Fn(&Operation) -> bool) -> bool {
    for g in c.get_graphs() {
        for n in g.get_nodes() {
            if f(&n.get_operation()) {
                return true;
            }
        }
    }
    false
}

pub fn run_mode(ctx: &mut Ctx, mode: Mode) {
    let total = match mode {
        Mode::Single => ctx.q(24000, 400000),
        Mode::Party => ctx.q(5000, 100000),
    };
    ctx.cases("gmpc", total, |ctx, _idx| {
        let prog = gen_mpc(&mut ctx.rng, 3, 12);
        ctx.count("programs", 1);
        ctx.count("builder_rejected_proposals", prog.rejected);
        let mut seen = std::collections::BTreeSet::new();
        for o in prog.ops.iter() {
            if seen.insert(o.clone()) {
                ctx.count(&format!("op.{}", o), 1);
            }
        }
        let n_cfg = ctx.q(2, 3);
        let cfgs: Vec<Config> = (0..n_cfg)
            .map(|_| rand_config(&mut ctx.rng, prog.input_types.len()))
            .collect();
        run_program(ctx, mode, &prog, &cfgs, "gmpc");
    });
}

pub fn run(ctx: &mut Ctx) {
    run_mode(ctx, Mode::Single);
}
