//! C05 — secure truncation stays within its documented error.

use super::custom_common::build_context;
use super::mpc_common::*;
use crate::ctx::Ctx;
use crate::rng::{mix, Rng};
use crate::val::*;
use ciphercore_base::data_types::{array_type, scalar_type, ScalarType};
use ciphercore_base::data_values::Value;
use serde_json::json;

/// inputs of the documented range, boundaries first
fn domain_values(rng: &mut Rng, st: ScalarType, k_or_d: u128, n: usize, small: bool) -> Vec<u128> {
    let w = st_bits(st);
    let m = mask(w);
    let signed = st_signed(st);
    let (lo, hi): (i128, i128) = if signed {
        (-(1i128 << (w - 2)), (1i128 << (w - 2)) - 1)
    } else {
        (0, (1i128 << (w - 1)).wrapping_sub(1))
    };
    let (lo, hi) = if w == 128 {
        // i128 arithmetic: the unsigned 128-bit range [0, 2^127) does not fit; use [0, 2^126]
        if signed { (-(1i128 << 126), (1i128 << 126) - 1) } else { (0, (1i128 << 126) - 1) }
    } else {
        (lo, hi)
    };
    let (lo, hi) = if small { (lo.max(-(1 << 20)), hi.min(1 << 20)) } else { (lo, hi) };
    let d = k_or_d.min(i128::MAX as u128) as i128;
    let mut v: Vec<i128> = vec![lo, hi, 0, 1, lo + 1, hi - 1];
    if signed {
        v.push(-1);
        v.push(d.wrapping_neg());
        v.push(d.wrapping_neg().wrapping_add(1));
        v.push(d.wrapping_neg().wrapping_sub(1));
    }
    for j in [1i128, 2, 3] {
        for e in [-1i128, 0, 1] {
            v.push(d.wrapping_mul(j).wrapping_add(e));
            if signed {
                v.push(d.wrapping_mul(j).wrapping_neg().wrapping_add(e));
            }
        }
    }
    v.retain(|x| *x >= lo && *x <= hi);
    while v.len() < n {
        let span = (hi - lo) as u128 + 1;
        let r = (rng.next_u128() % span) as i128 + lo;
        v.push(r);
    }
    v.truncate(n);
    v.iter().map(|x| (*x as u128) & m).collect()
}

fn floor_div_pow2(x: i128, k: u32) -> i128 {
    x >> k
}

pub fn run(ctx: &mut Ctx) {
    // (scalar type, divisor) grid
    let mut grid: Vec<(ScalarType, u128, bool)> = vec![]; // (type, scale, is_pow2)
    for st in INT_ST.iter().cloned() {
        let w = st_bits(st);
        let ks: Vec<u32> = if ctx.quick() {
            let mut v = vec![1, 2, w / 2, w - 3, w - 2];
            v.sort();
            v.dedup();
            v
        } else {
            (1..=w - 2).collect()
        };
        for k in ks {
            grid.push((st, 1u128 << k, true));
        }
        if st_signed(st) {
            for d in [3u128, 5, 7, 10, 100, 1000] {
                if d < (1u128 << (w - 2)) {
                    grid.push((st, d, false));
                }
            }
            grid.push((st, (1u128 << (w / 2)) + 1, false));
            grid.push((st, (1u128 << (w / 2)) - 1, false));
        }
    }
    let reps = ctx.q(60u64, 600);
    let total = grid.len() as u64 * reps;
    ctx.cases("grid", total, |ctx, idx| {
        let (st, scale, pow2) = grid[(idx % grid.len() as u64) as usize];
        let w = st_bits(st);
        let signed = st_signed(st);
        let m = mask(w);
        let n = ctx.q(48usize, 128);
        let shape: Vec<u64> = match ctx.rng.below(3) {
            0 => vec![n as u64],
            1 => vec![(n / 4) as u64, 4],
            _ => vec![2, (n / 2) as u64],
        };
        let n = shape.iter().product::<u64>() as usize;
        let t = array_type(shape.clone(), st);
        let c = match build_context(&[t.clone()], |g, i| g.truncate(i[0].clone(), scale)) {
            Ok(c) => c,
            Err(_) => {
                ctx.count("graph_rejected", 1);
                return;
            }
        };
        // configuration: owner in {party, shared, public}, outputs in {one party, all, secret-shared}
        let owner = match ctx.rng.below(6) {
            0 => Owner::Public,
            1 | 2 => Owner::Shared,
            _ => Owner::P(ctx.rng.below(3)),
        };
        let outs: Vec<u64> = match ctx.rng.below(4) {
            0 => vec![],
            1 => vec![0, 1, 2],
            2 => vec![ctx.rng.below(3), 0].into_iter().collect::<std::collections::BTreeSet<_>>().into_iter().collect(),
            _ => vec![ctx.rng.below(3)],
        };
        let (inline, inline_name) = inline_modes()[ctx.rng.usize(3)].clone();
        let cfg = Config { owners: vec![owner], outs, inline, inline_name };
        let compiled = match compile(&c, &cfg, ctx.rng.seed16()) {
            Compiled::Ok(x) => x,
            Compiled::Rejected(msg) => {
                ctx.count("compile_rejected", 1);
                ctx.count(&format!("rejected.{}", msg), 1);
                return;
            }
            Compiled::Panicked(p) => {
                ctx.violation(
                    &format!("C05|compile_panic|{}", p.site),
                    json!({"what": p.message, "type": st_name(st), "scale": format!("{}", scale), "config": cfg.describe()}),
                );
                return;
            }
        };
        ctx.count("compiled", 1);
        ctx.count(&format!("type.{}", st_name(st)), 1);
        ctx.count(if pow2 { "protocol.power_of_two" } else { "protocol.general_divisor" }, 1);
        let small = !pow2 && w >= 64 && ctx.rng.bool();
        let xs = domain_values(&mut ctx.rng, st, scale, n, small);
        let input = value_of_ints(&xs, st);
        let out_t = t.clone();
        let n_seeds = ctx.q(2, 6);
        let mut results: Vec<(String, Vec<u128>)> = vec![];
        for _ in 0..n_seeds {
            let ins = inputs_single(&mut ctx.rng, &cfg, &[t.clone()], &[input.clone()]);
            match eval_single(&compiled, ins, ctx.rng.seed16()) {
                Ok(v) => match reveal_single(&cfg, &v, &out_t).ok().and_then(|r| ints_of_value(&r, &out_t)) {
                    Some(r) => results.push(("single".into(), r)),
                    None => ctx.violation("C05|output_shape", json!({"what": "unexpected output shape", "config": cfg.describe()})),
                },
                Err(e) => ctx.violation(
                    &format!("C05|eval_error|{}", first_line(&e)),
                    json!({"what": e, "type": st_name(st), "scale": format!("{}", scale), "config": cfg.describe()}),
                ),
            }
        }
        // three separate parties
        for j in 0..ctx.q(1, 3) {
            let junk = [Fill::Uniform, Fill::Zeros, Fill::Ones][j % 3];
            let ins = inputs_party(&mut ctx.rng, &cfg, &[t.clone()], &[input.clone()], junk);
            let seeds = seeds3(&mut ctx.rng);
            let js = ctx.rng.next_u64();
            if let Ok(run) = run_parties(&compiled, &ins, seeds, js, None) {
                ctx.count("three_party_executions", 1);
                ctx.count("messages", run.msgs.len() as u64);
                if !cfg.outs.is_empty() {
                    for p in cfg.outs.iter() {
                        if let Some(r) = ints_of_value(&run.output(*p as usize), &out_t) {
                            results.push((format!("party{}", p), r));
                        }
                    }
                } else {
                    let slots: Vec<Vec<Value>> = (0..3).filter_map(|p| run.output(p).to_vector().ok()).collect();
                    if slots.len() == 3 && slots.iter().all(|s| s.len() == 3) {
                        let s = tree_add(&tree_add(&slots[0][0], &slots[1][1], &out_t), &slots[2][2], &out_t);
                        if let Some(r) = ints_of_value(&s, &out_t) {
                            results.push(("parties-shared".into(), r));
                        }
                        for p in 0..3 {
                            let q = (p + 1) % 3;
                            if slots[p][q] != slots[q][q] {
                                ctx.violation(
                                    "C05|shared_output_inconsistent",
                                    json!({"what": format!("party {} and party {} disagree on share {}", p, q, q), "config": cfg.describe()}),
                                );
                            }
                        }
                    }
                }
            }
        }
        // oracle
        let public = owner == Owner::Public;
        for (mode, rs) in results.iter() {
            for (x, r) in xs.iter().zip(rs.iter()) {
                ctx.count("elements_checked", 1);
                let sx = to_signed(*x, st);
                let ok = if public {
                    // exact plaintext semantics: round toward zero for signed, floor for unsigned
                    let want = if signed { (sx / scale as i128) as u128 & m } else { (x / scale) & m };
                    *r == want
                } else if pow2 {
                    let k = scale.trailing_zeros();
                    let f = if signed { floor_div_pow2(sx, k) as u128 & m } else { (x >> k) & m };
                    *r == f || *r == f.wrapping_add(1) & m
                } else {
                    let want = sx / scale as i128; // trunc toward zero
                    let got = to_signed(*r, st);
                    // (a garbage result may be anywhere in the i128 range)
                    let diff = got.saturating_sub(want).max(-i128::MAX);
                    if diff.abs() <= 1 {
                        true
                    } else {
                        // documented wrap-around: off by about +-2^w / d
                        let wrap = if w < 127 { (1i128 << w) / scale as i128 } else { i128::MAX / scale as i128 * 2 };
                        let is_wrap = ((diff.abs() - wrap).abs() <= 2) || (w >= 127 && diff.abs() > 2);
                        if is_wrap && !(small) {
                            ctx.count("documented_wraparounds", 1);
                            true
                        } else {
                            false
                        }
                    }
                };
                if !ok {
                    let class = if public { "public_not_exact" } else if pow2 { "power_of_two" } else { "general_divisor" };
                    ctx.violation(
                        &format!("C05|out_of_bound|{}|{}", class, st_name(st)),
                        json!({"what": format!("Truncate({}) of {} ({}) returned {} [{}], outside the documented error",
                                               scale, sx, st_name(st), to_signed(*r, st), mode),
                               "config": cfg.describe(), "small_input": small}),
                    );
                    break;
                }
            }
        }
        ctx.case_done(mix(&[idx, crate::rng::fnv(cfg.describe().as_bytes()), scale as u64, w as u64]), !public && !results.is_empty());
        if idx < 80 {
            ctx.sample(json!({"type": st_name(st), "scale": format!("{}", scale), "shape": shape, "config": cfg.describe(),
                              "first_inputs": xs.iter().take(6).map(|x| format!("{}", to_signed(*x, st))).collect::<Vec<_>>()}));
        }
    });
    let _ = scalar_type;
}
