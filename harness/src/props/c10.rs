//! C10 — primitive operations follow their documented NumPy-style modular semantics.
//! This driver only produces and records executions (one-operation graphs evaluated by the real
//! SimpleEvaluator); the oracle is the offline NumPy reference interpreter in monitors/.

use super::custom_common::build_context;
use crate::ctx::{guard, Ctx};
use crate::rng::{fnv, Rng};
use crate::val::*;
use ciphercore_base::data_types::{
    array_type, scalar_type, vector_type, ScalarType, Type, BIT, UINT64,
};
use ciphercore_base::data_values::Value;
use ciphercore_base::evaluators::simple_evaluator::SimpleEvaluator;
use ciphercore_base::evaluators::Evaluator;
use ciphercore_base::graphs::{Context, Graph, Node, Operation, SliceElement};
use serde_json::{json, Value as J};
use std::io::Write;

pub struct Recorder {
    file: Option<std::fs::File>,
}

impl Recorder {
    pub fn new(ctx: &Ctx, name: &str) -> Recorder {
        let file = std::env::var("VX_AUX_DIR").ok().map(|d| {
            std::fs::create_dir_all(&d).ok();
            std::fs::File::create(format!("{}/{}_{}.jsonl", d, name, ctx.shard)).unwrap()
        });
        Recorder { file }
    }
    pub fn write(&mut self, rec: &J) {
        if let Some(f) = self.file.as_mut() {
            let _ = writeln!(f, "{}", rec);
        }
    }
}

/// evaluate a finalized context on inputs with the plain evaluator and build the log record
pub fn record_execution(ctx: &mut Ctx, c: &Context, inputs: &[Value], label: &str) -> J {
    let g = c.get_main_graph().unwrap();
    let nodes = g.get_nodes();
    let node_types: Vec<J> = nodes
        .iter()
        .map(|n| serde_json::to_value(n.get_type().unwrap()).unwrap())
        .collect();
    let mut constants = serde_json::Map::new();
    for n in nodes.iter() {
        if let Operation::Constant(_, v) = n.get_operation() {
            constants.insert(format!("{}", n.get_id()), value_json_full(&v));
        }
    }
    let c2 = c.clone();
    let ins = inputs.to_vec();
    let seed = ctx.rng.seed16();
    let r = guard(move || -> ciphercore_base::errors::Result<Value> {
        let mut ev = SimpleEvaluator::new(Some(seed))?;
        ev.preprocess(&c2)?;
        ev.evaluate_context(c2, ins)
    });
    let (status, out) = match r {
        Ok(Ok(v)) => ("ok".to_string(), value_json_full(&v)),
        Ok(Err(e)) => (
            format!("error: {}", e.to_string().lines().next().unwrap_or("")),
            J::Null,
        ),
        Err(p) => (format!("panic: {} @ {}", p.message, p.site), J::Null),
    };
    json!({
        "case": ctx.case_key, "label": label,
        "context": serde_json::to_string(c).unwrap_or_default(),
        "node_types": node_types,
        "constants": constants,
        "inputs": inputs.iter().map(value_json_full).collect::<Vec<_>>(),
        "status": status,
        "output": out,
    })
}

fn shape_variant(rng: &mut Rng, s: &[u64]) -> Vec<u64> {
    let mut out: Vec<u64> = s.iter().map(|d| if rng.chance(1, 3) { 1 } else { *d }).collect();
    let drop = rng.usize(out.len() + 1);
    out.drain(..drop);
    out
}

fn mk(s: &[u64], st: ScalarType) -> Type {
    if s.is_empty() {
        scalar_type(st)
    } else {
        array_type(s.to_vec(), st)
    }
}

fn rshape(rng: &mut Rng, min_rank: u64, max_rank: u64, max_dim: u64) -> Vec<u64> {
    let r = rng.range(min_rank, max_rank);
    (0..r).map(|_| rng.range(1, max_dim)).collect()
}

const OP_CLASSES: [&str; 27] = [
    "arith", "mixed_multiply", "dot", "matmul", "gemm", "sum", "cumsum", "get", "get_slice", "gather",
    "permute_axes", "reshape", "stack", "concatenate", "a2v", "v2a", "tuples", "vectors", "zip_repeat",
    "a2b", "b2a", "truncate", "consts", "inverse_permutation", "apply_permutation", "dot_scalar", "matmul_rank1",
];

type BuildFn = Box<dyn FnOnce(&Graph, &[Node]) -> ciphercore_base::errors::Result<Node>>;

/// returns (argument types, builder, optional explicit inputs)
fn make_case(rng: &mut Rng, class: &str, st: ScalarType) -> Option<(Vec<Type>, BuildFn, Option<Vec<Value>>)> {
    let ist = if st == BIT { *rng.pick(&INT_ST) } else { st };
    match class {
        "arith" => {
            let s = rshape(rng, 0, 4, 3);
            let (sa, sb) = if rng.bool() { (s.clone(), shape_variant(rng, &s)) } else { (shape_variant(rng, &s), s.clone()) };
            let k = rng.below(3);
            Some((vec![mk(&sa, st), mk(&sb, st)], Box::new(move |g, i| match k {
                0 => g.add(i[0].clone(), i[1].clone()),
                1 => g.subtract(i[0].clone(), i[1].clone()),
                _ => g.multiply(i[0].clone(), i[1].clone()),
            }), None))
        }
        "mixed_multiply" => {
            let s = rshape(rng, 0, 4, 3);
            let (sa, sb) = if rng.bool() { (s.clone(), shape_variant(rng, &s)) } else { (shape_variant(rng, &s), s.clone()) };
            Some((vec![mk(&sa, ist), mk(&sb, BIT)], Box::new(|g, i| g.mixed_multiply(i[0].clone(), i[1].clone())), None))
        }
        "dot" => {
            let k = rng.range(1, 3);
            let mut sa = rshape(rng, 0, 2, 3);
            sa.push(k);
            let sb = match rng.below(3) {
                0 => vec![k],
                1 => vec![k, rng.range(1, 3)],
                _ => vec![rng.range(1, 2), k, rng.range(1, 3)],
            };
            Some((vec![mk(&sa, st), mk(&sb, st)], Box::new(|g, i| g.dot(i[0].clone(), i[1].clone())), None))
        }
        "dot_scalar" => {
            let s = rshape(rng, 0, 3, 3);
            let (ta, tb) = if rng.bool() { (mk(&[], st), mk(&s, st)) } else { (mk(&s, st), mk(&[], st)) };
            Some((vec![ta, tb], Box::new(|g, i| g.dot(i[0].clone(), i[1].clone())), None))
        }
        "matmul" => {
            let (n, k, m) = (rng.range(1, 3), rng.range(1, 3), rng.range(1, 3));
            let batch = rshape(rng, 0, 2, 3);
            let mut sa = shape_variant(rng, &batch);
            sa.extend([n, k]);
            let mut sb = shape_variant(rng, &batch);
            sb.extend([k, m]);
            Some((vec![mk(&sa, st), mk(&sb, st)], Box::new(|g, i| g.matmul(i[0].clone(), i[1].clone())), None))
        }
        "matmul_rank1" => {
            let k = rng.range(1, 4);
            let (sa, sb) = match rng.below(3) {
                0 => (vec![k], vec![k]),
                1 => (vec![k], { let mut s = rshape(rng, 0, 2, 3); s.extend([k, rng.range(1, 3)]); s }),
                _ => ({ let mut s = rshape(rng, 0, 2, 3); s.extend([rng.range(1, 3), k]); s }, vec![k]),
            };
            Some((vec![mk(&sa, st), mk(&sb, st)], Box::new(|g, i| g.matmul(i[0].clone(), i[1].clone())), None))
        }
        "gemm" => {
            let (n, k, m) = (rng.range(1, 3), rng.range(1, 3), rng.range(1, 3));
            let (ta, tb) = (rng.bool(), rng.bool());
            let batch = rshape(rng, 0, 2, 3);
            let mut sa = shape_variant(rng, &batch);
            sa.extend(if ta { [k, n] } else { [n, k] });
            let mut sb = shape_variant(rng, &batch);
            sb.extend(if tb { [m, k] } else { [k, m] });
            Some((vec![mk(&sa, st), mk(&sb, st)], Box::new(move |g, i| g.gemm(i[0].clone(), i[1].clone(), ta, tb)), None))
        }
        "sum" => {
            let s = rshape(rng, 1, 4, 3);
            let axes: Vec<u64> = (0..s.len() as u64).filter(|_| rng.bool()).collect();
            Some((vec![mk(&s, st)], Box::new(move |g, i| g.sum(i[0].clone(), axes)), None))
        }
        "cumsum" => {
            let s = rshape(rng, 1, 4, 3);
            let ax = rng.below(s.len() as u64);
            Some((vec![mk(&s, st)], Box::new(move |g, i| g.cum_sum(i[0].clone(), ax)), None))
        }
        "get" => {
            let s = rshape(rng, 1, 4, 3);
            let k = rng.range(1, s.len() as u64) as usize;
            let idx: Vec<u64> = (0..k).map(|j| rng.below(s[j])).collect();
            Some((vec![mk(&s, st)], Box::new(move |g, i| g.get(i[0].clone(), idx)), None))
        }
        "get_slice" => {
            let s = rshape(rng, 1, 4, 4);
            let sl = rand_slice(rng, &s);
            Some((vec![mk(&s, st)], Box::new(move |g, i| g.get_slice(i[0].clone(), sl)), None))
        }
        "gather" => {
            let s = rshape(rng, 1, 3, 4);
            let ax = rng.below(s.len() as u64);
            let d = s[ax as usize];
            // distinct indices (a documented requirement is not assumed; both kinds are logged)
            let n_idx = rng.range(1, d);
            let mut all: Vec<u128> = (0..d as u128).collect();
            rng.shuffle(&mut all);
            let idx: Vec<u128> = all[..n_idx as usize].to_vec();
            let idx_st = *rng.pick(&[UINT64, ciphercore_base::data_types::UINT32, ciphercore_base::data_types::UINT8]);
            let ti = array_type(vec![n_idx], idx_st);
            let tv = mk(&s, st);
            let f0 = pick_fill(rng);
            let v0 = rand_value(rng, &tv, f0);
            let v1 = value_of_ints(&idx, idx_st);
            Some((vec![tv, ti], Box::new(move |g, i| g.gather(i[0].clone(), i[1].clone(), ax)), Some(vec![v0, v1])))
        }
        "permute_axes" => {
            let s = rshape(rng, 1, 4, 3);
            let mut p: Vec<u64> = (0..s.len() as u64).collect();
            rng.shuffle(&mut p);
            Some((vec![mk(&s, st)], Box::new(move |g, i| g.permute_axes(i[0].clone(), p)), None))
        }
        "reshape" => {
            let s = rshape(rng, 1, 4, 3);
            let n: u64 = s.iter().product();
            let mut dims = vec![];
            let mut rest = n;
            for _ in 0..rng.range(0, 2) {
                let divs: Vec<u64> = (1..=rest).filter(|d| rest % d == 0).collect();
                let d = *rng.pick(&divs);
                dims.push(d);
                rest /= d;
            }
            dims.push(rest);
            let nt = array_type(dims, st);
            Some((vec![mk(&s, st)], Box::new(move |g, i| g.reshape(i[0].clone(), nt)), None))
        }
        "stack" => {
            let s = rshape(rng, 0, 3, 3);
            let k = *rng.pick(&[1u64, 2, 3, 4, 6]);
            let ts: Vec<Type> = (0..k).map(|j| if j == 0 { mk(&s, st) } else { mk(&shape_variant(rng, &s), st) }).collect();
            let outer = match k {
                4 if rng.bool() => vec![2, 2],
                6 => if rng.bool() { vec![2, 3] } else { vec![3, 1, 2] },
                1 if rng.bool() => vec![1, 1],
                _ => vec![k],
            };
            Some((ts, Box::new(move |g, i| g.stack(i.to_vec(), outer)), None))
        }
        "concatenate" => {
            let s = rshape(rng, 1, 4, 3);
            let ax = rng.below(s.len() as u64);
            let k = rng.range(1, 3);
            let ts: Vec<Type> = (0..k).map(|_| { let mut s2 = s.clone(); s2[ax as usize] = rng.range(1, 3); mk(&s2, st) }).collect();
            Some((ts, Box::new(move |g, i| g.concatenate(i.to_vec(), ax)), None))
        }
        "a2v" => {
            let s = rshape(rng, 1, 4, 3);
            Some((vec![mk(&s, st)], Box::new(|g, i| g.array_to_vector(i[0].clone())), None))
        }
        "v2a" => {
            let s = rshape(rng, 0, 3, 3);
            let n = rng.range(1, 4);
            Some((vec![vector_type(n, mk(&s, st))], Box::new(|g, i| g.vector_to_array(i[0].clone())), None))
        }
        "tuples" => {
            let t1 = mk(&rshape(rng, 0, 2, 3), st);
            let t2 = mk(&rshape(rng, 0, 2, 3), *rng.pick(&ALL_ST));
            let which = rng.below(4);
            let pick = rng.below(2);
            Some((vec![t1, t2], Box::new(move |g, i| match which {
                0 => g.create_tuple(i.to_vec()),
                1 => g.create_named_tuple(vec![("a".into(), i[0].clone()), ("b".into(), i[1].clone())]),
                2 => g.create_tuple(i.to_vec())?.tuple_get(pick),
                _ => g.create_named_tuple(vec![("a".into(), i[0].clone()), ("b".into(), i[1].clone())])?
                    .named_tuple_get(if pick == 0 { "a".into() } else { "b".into() }),
            }), None))
        }
        "vectors" => {
            let t1 = mk(&rshape(rng, 0, 2, 3), st);
            let n = rng.range(1, 3) as usize;
            let which = rng.below(2);
            let pick = rng.below(n as u64);
            let t1c = t1.clone();
            Some((vec![t1.clone(); n], Box::new(move |g, i| {
                let v = g.create_vector(t1c, i.to_vec())?;
                if which == 0 {
                    Ok(v)
                } else {
                    let idx = g.constant(scalar_type(UINT64), Value::from_scalar(pick, UINT64)?)?;
                    v.vector_get(idx)
                }
            }), None))
        }
        "zip_repeat" => {
            let t1 = mk(&rshape(rng, 0, 2, 3), st);
            let n = rng.range(1, 3);
            let which = rng.below(2);
            Some((vec![vector_type(n, t1.clone()), vector_type(n, mk(&rshape(rng, 0, 2, 2), *rng.pick(&ALL_ST)))],
                  Box::new(move |g, i| if which == 0 { g.zip(i.to_vec()) } else { g.repeat(i[0].clone(), n) }), None))
        }
        "a2b" => {
            let s = rshape(rng, 0, 3, 3);
            Some((vec![mk(&s, ist)], Box::new(|g, i| g.a2b(i[0].clone())), None))
        }
        "b2a" => {
            let mut s = rshape(rng, 0, 3, 3);
            s.push(st_bits(ist) as u64);
            Some((vec![mk(&s, BIT)], Box::new(move |g, i| g.b2a(i[0].clone(), ist)), None))
        }
        "truncate" => {
            let s = rshape(rng, 0, 3, 3);
            let w = st_bits(ist);
            let scale: u128 = match rng.below(8) {
                0 => 1,
                1 => 2,
                2 => 3,
                3 => 10,
                4 => 1u128 << rng.below(w as u64 - 1),
                5 => (1u128 << (w - 2)) + 1,
                6 => 7,
                _ => (rng.next_u128() & mask(w - 1)).max(1),
            };
            Some((vec![mk(&s, ist)], Box::new(move |g, i| g.truncate(i[0].clone(), scale)), None))
        }
        "consts" => {
            let t = mk(&rshape(rng, 0, 3, 3), st);
            let which = rng.below(3);
            let f0 = pick_fill(rng);
            let v = rand_value(rng, &t, f0);
            let t2 = t.clone();
            Some((vec![], Box::new(move |g, _| match which {
                0 => g.zeros(t2),
                1 => g.ones(t2),
                _ => g.constant(t2, v),
            }), None))
        }
        "inverse_permutation" => {
            let n = rng.range(1, 8);
            let mut p: Vec<u128> = (0..n as u128).collect();
            rng.shuffle(&mut p);
            let t = array_type(vec![n], UINT64);
            Some((vec![t], Box::new(|g, i| g.inverse_permutation(i[0].clone())), Some(vec![value_of_ints(&p, UINT64)])))
        }
        "apply_permutation" => {
            let n = rng.range(1, 6);
            let mut s = vec![n];
            s.extend(rshape(rng, 0, 2, 3));
            let mut p: Vec<u128> = (0..n as u128).collect();
            rng.shuffle(&mut p);
            let inv = rng.bool();
            let tv = mk(&s, st);
            let f0 = pick_fill(rng);
            let v0 = rand_value(rng, &tv, f0);
            Some((vec![tv, array_type(vec![n], UINT64)],
                  Box::new(move |g, i| if inv { g.apply_inverse_permutation(i[0].clone(), i[1].clone()) } else { g.apply_permutation(i[0].clone(), i[1].clone()) }),
                  Some(vec![v0, value_of_ints(&p, UINT64)])))
        }
        _ => None,
    }
}

pub fn rand_slice(rng: &mut Rng, s: &[u64]) -> Vec<SliceElement> {
    // reuse the builder's slice generator through a throw-away builder-free copy
    let mut out = vec![];
    let mut ellipsis_used = false;
    for d in s.iter() {
        let d = *d as i64;
        match rng.below(8) {
            0 => out.push(SliceElement::SingleIndex(rng.irange(-d, d - 1))),
            1 if !ellipsis_used => {
                out.push(SliceElement::Ellipsis);
                ellipsis_used = true;
                break;
            }
            2 => break,
            _ => {
                let start = if rng.chance(1, 3) { None } else { Some(rng.irange(-d - 1, d + 1)) };
                let stop = if rng.chance(1, 3) { None } else { Some(rng.irange(-d - 1, d + 1)) };
                let step = match rng.below(6) {
                    0 => None,
                    1 => Some(-1),
                    2 => Some(-2),
                    3 => Some(2),
                    4 => Some(1),
                    _ => Some(rng.irange(1, 3)),
                };
                out.push(SliceElement::SubArray(start, stop, step));
            }
        }
    }
    if ellipsis_used && rng.bool() {
        let d = *s.last().unwrap() as i64;
        out.push(SliceElement::SingleIndex(rng.irange(-d, d - 1)));
    }
    out
}

pub fn run(ctx: &mut Ctx) {
    let mut rec = Recorder::new(ctx, "c10");
    let per = ctx.q(500u64, 5000);
    let total = OP_CLASSES.len() as u64 * ALL_ST.len() as u64 * per;
    ctx.cases("oneop", total, |ctx, idx| {
        let class = OP_CLASSES[(idx % OP_CLASSES.len() as u64) as usize];
        let st = ALL_ST[((idx / OP_CLASSES.len() as u64) % ALL_ST.len() as u64) as usize];
        let (arg_types, build, explicit) = match make_case(&mut ctx.rng, class, st) {
            Some(x) => x,
            None => return,
        };
        let c = match build_context(&arg_types, build) {
            Ok(c) => c,
            Err(e) => {
                ctx.count("build_rejected", 1);
                ctx.count(&format!("build_rejected.{}", class), 1);
                if e.starts_with("panic") {
                    ctx.violation(&format!("C10|build_panic|{}", class), json!({"what": e}));
                }
                return;
            }
        };
        let n_draws = 2;
        for d in 0..n_draws {
            let inputs: Vec<Value> = match (&explicit, d) {
                (Some(v), 0) => v.clone(),
                (Some(v), _) => {
                    // keep index-like operands, redraw data operands
                    let mut v2 = v.clone();
                    v2[0] = if class == "inverse_permutation" { v[0].clone() } else { rand_value(&mut ctx.rng, &arg_types[0], Fill::Extreme) };
                    v2
                }
                (None, 0) => arg_types.iter().map(|t| rand_value(&mut ctx.rng, t, Fill::Uniform)).collect(),
                (None, _) => arg_types.iter().map(|t| rand_value(&mut ctx.rng, t, Fill::Extreme)).collect(),
            };
            let r = record_execution(ctx, &c, &inputs, class);
            ctx.count("executions_recorded", 1);
            ctx.count(&format!("class.{}", class), 1);
            ctx.count(&format!("st.{}", st_name(st)), 1);
            if d == 0 && idx < 400 {
                ctx.sample(json!({"class": class, "scalar_type": st_name(st),
                                  "arg_types": arg_types.iter().map(|t| format!("{}", t)).collect::<Vec<_>>(),
                                  "status": r["status"]}));
            }
            rec.write(&r);
        }
        let mut h = format!("{}|{}|", class, st_name(st)).into_bytes();
        h.extend_from_slice(serde_json::to_string(&c).unwrap_or_default().as_bytes());
        ctx.case_done(fnv(&h), true);
    });
}
