//! C04 — every pseudo-random mask is fresh: PRF counters unique in compiler output (static walk
//! and dynamic PRF-call log), and the optimizer leaves randomising / PRF nodes alone.

use super::mpc_common::*;
use super::opt_common::check_optimizer;
use crate::ctx::{guard, Ctx};
use crate::gen::inl::gen_inl;
use crate::gen::mpc::gen_mpc_opts;
use crate::mon::obs::Obs;
use crate::rng::mix;
use crate::val::*;
use ciphercore_base::data_types::Type;
use ciphercore_base::data_values::Value;
use ciphercore_base::evaluators::simple_evaluator::SimpleEvaluator;
use ciphercore_base::evaluators::Evaluator;
use ciphercore_base::graphs::{Context, Operation};
use ciphercore_base::mpc::mpc_compiler::{prepare_context, prepare_for_mpc_evaluation, IOStatus};
use serde_json::json;
use std::collections::HashMap;

/// static walk: no two PRF / PermutationFromPRF nodes with the same counter
pub fn walk_counters(ctx: &mut Ctx, c: &Context, stage: &str, detail: &serde_json::Value) -> u64 {
    let g = c.get_main_graph().unwrap();
    let mut seen: HashMap<u64, u64> = HashMap::new();
    let mut n_prf = 0;
    for n in g.get_nodes() {
        let iv = match n.get_operation() {
            Operation::PRF(iv, _) | Operation::PermutationFromPRF(iv, _) => iv,
            _ => continue,
        };
        n_prf += 1;
        if let Some(prev) = seen.insert(iv, n.get_id()) {
            ctx.violation(
                &format!("C04|duplicate_counter|{}", stage),
                json!({"what": format!("nodes {} and {} of the {} graph carry the same PRF counter {}", prev, n.get_id(), stage, iv),
                       "case": detail}),
            );
            break;
        }
    }
    ctx.count("graphs_walked", 1);
    ctx.count("prf_nodes_seen", n_prf);
    ctx.count("distinct_counters_seen", seen.len() as u64);
    n_prf
}

fn main_input_types(c: &Context) -> Vec<Type> {
    c.get_main_graph()
        .unwrap()
        .get_nodes()
        .iter()
        .filter_map(|n| if let Operation::Input(t) = n.get_operation() { Some(t) } else { None })
        .collect()
}

pub fn run(ctx: &mut Ctx) {
    let total = ctx.q(16000, 150000);
    ctx.cases("compiled", total, |ctx, idx| {
        let prog = gen_mpc_opts(&mut ctx.rng, 3, 12, true);
        ctx.count("programs", 1);
        let cfg = rand_config(&mut ctx.rng, prog.input_types.len());
        let detail = json!({"ops": prog.ops, "config": cfg.describe()});
        // stage 1: before the final optimisation round
        let owners: Vec<IOStatus> = cfg.owners.iter().map(|o| o.status()).collect();
        let outs: Vec<IOStatus> = cfg.outs.iter().map(|p| IOStatus::Party(*p)).collect();
        let (c0, inl) = (prog.ctx.clone(), cfg.inline.clone());
        let seed = ctx.rng.seed16();
        let pre = guard(move || -> ciphercore_base::errors::Result<Context> {
            let c4 = prepare_context(c0, inl.clone(), SimpleEvaluator::new(Some(seed))?, false)?;
            let m = prepare_for_mpc_evaluation(&c4.get_context(), vec![owners], vec![outs], inl)?;
            Ok(m.get_context())
        });
        let pre = match pre {
            Ok(Ok(c)) => Some(c),
            Ok(Err(_)) => {
                ctx.count("compile_rejected", 1);
                None
            }
            Err(p) => {
                ctx.violation(&format!("C04|compile_panic|{}", p.site), json!({"what": p.message, "case": detail}));
                None
            }
        };
        let mut nontrivial = false;
        if let Some(pre) = &pre {
            let n = walk_counters(ctx, pre, "prepare_for_mpc_evaluation", &detail);
            nontrivial = n >= 2;
            // the optimizer's real input: compiler output before the last optimisation
            let its = main_input_types(pre);
            check_optimizer(ctx, "C04", pre, &its, &prog.ops, "compiled");
        }
        // stage 2: the whole pipeline
        if let Compiled::Ok(full) = compile(&prog.ctx, &cfg, ctx.rng.seed16()) {
            ctx.count("compiled", 1);
            walk_counters(ctx, &full, "compile_context", &detail);
            // dynamic: PRF-call log of one execution
            let its = main_input_types(&full);
            let inputs: Vec<Value> = its.iter().map(|t| rand_value(&mut ctx.rng, t, Fill::Uniform)).collect();
            let mut obs = Obs::new(ctx.rng.seed16());
            obs.log_prf = true;
            let heavy = work_bits(&full) > HEAVY_WORK_BITS * 4;
            if heavy {
                ctx.count("skipped_heavy_execution", 1);
            }
            let r = {
                let (c, o) = (full.clone(), &mut obs);
                guard(move || {
                    if heavy {
                        return Ok(None);
                    }
                    o.preprocess(&c)?;
                    o.evaluate_context(c, inputs).map(Some)
                })
            };
            if let Ok(Ok(Some(_))) = r {
                ctx.count("prf_calls_logged", obs.prf_calls.len() as u64);
                let mut seen: HashMap<(Vec<u8>, u64), (u64, u64)> = HashMap::new();
                for call in obs.prf_calls.iter() {
                    if let Some(prev) = seen.insert((call.key.clone(), call.iv), call.node) {
                        if prev != call.node {
                            ctx.violation(
                                "C04|same_key_and_counter_at_two_nodes",
                                json!({"what": format!("nodes {:?} and {:?} evaluated the PRF on the same (key, counter={})",
                                                       prev, call.node, call.iv), "case": detail}),
                            );
                            break;
                        }
                    }
                }
            }
        }
        ctx.case_done(mix(&[prog.hash, crate::rng::fnv(cfg.describe().as_bytes())]), nontrivial);
        if idx < 64 && nontrivial {
            ctx.sample(detail);
        }
    });
    let total = ctx.q(80000, 600000);
    ctx.cases("ginl", total, |ctx, _idx| {
        let prog = gen_inl(&mut ctx.rng);
        ctx.count("inl_programs", 1);
        let has = prog.ops.iter().any(|o| ["Random", "RandomPermutation", "PRF", "PermutationFromPRF"].contains(&o.as_str()));
        check_optimizer(ctx, "C04", &prog.ctx, &prog.input_types, &prog.ops, "ginl");
        ctx.case_done(prog.hash, has);
    });
}
