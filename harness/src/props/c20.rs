//! C20 — approximate numeric operations stay close to the real function.

use super::custom_common::{custom_context, prepare, Prepared};
use super::mpc_common::*;
use crate::ctx::Ctx;
use crate::rng::mix;
use crate::val::*;
use ciphercore_base::custom_ops::CustomOperation;
use ciphercore_base::data_types::{array_type, Type, INT64, UINT64};
use ciphercore_base::ops::fixed_precision::fixed_multiply::FixedMultiply;
use ciphercore_base::ops::fixed_precision::fixed_precision_config::FixedPrecisionConfig;
use ciphercore_base::ops::goldschmidt_division::GoldschmidtDivision;
use ciphercore_base::ops::inverse_sqrt::InverseSqrt;
use ciphercore_base::ops::newton_inversion::NewtonInversion;
use ciphercore_base::ops::pwl::approx_exponent::ApproxExponent;
use ciphercore_base::ops::pwl::approx_gelu::ApproxGelu;
use ciphercore_base::ops::pwl::approx_sigmoid::ApproxSigmoid;
use ciphercore_base::ops::taylor_exponent::TaylorExponent;
use serde_json::{json, Value as J};

#[derive(Clone, Debug)]
struct Tol {
    abs_units: f64,
    rel: f64,
    abs_real: f64,
}

fn load_tol() -> J {
    let p = concat!(env!("CARGO_MANIFEST_DIR"), "/../config/tolerances.json");
    serde_json::from_str(&std::fs::read_to_string(p).expect("config/tolerances.json")).unwrap()
}

fn tol_of(j: &J, name: &str) -> Tol {
    Tol {
        abs_units: j[name]["abs_units"].as_f64().unwrap_or(0.0),
        rel: j[name]["rel"].as_f64().unwrap_or(0.0),
        abs_real: j[name]["abs_real"].as_f64().unwrap_or(0.0),
    }
}

fn erf(x: f64) -> f64 {
    // Abramowitz-Stegun 7.1.26 is too coarse for a 0.01 tolerance check near zero? (error 1.5e-7: fine)
    let t = 1.0 / (1.0 + 0.3275911 * x.abs());
    let y = 1.0 - (((((1.061405429 * t - 1.453152027) * t) + 1.421413741) * t - 0.284496736) * t + 0.254829592) * t * (-x * x).exp();
    if x >= 0.0 { y } else { -y }
}

#[derive(Clone)]
struct Sweep {
    name: &'static str,
    op: CustomOperation,
    st_unsigned: bool,
    /// inputs (one or two operands per point) and the exact value in output units
    points: Vec<(Vec<i128>, f64)>,
    precision_units: f64,
    params: String,
    /// optional extra argument (initial approximation) per point
    with_initial: bool,
}

fn chunks<T: Clone>(v: &[T], n: usize) -> Vec<Vec<T>> {
    v.chunks(n).map(|c| c.to_vec()).collect()
}

fn build_sweeps(quick: bool) -> Vec<Sweep> {
    let mut out = vec![];
    let stride = |n: u64, max_pts: u64| -> u64 { if quick { (n / max_pts).max(1) } else { 1 } };
    // reciprocal: 2^cap / x on (0, 2^(cap-1))
    for (it, cap) in [(5u64, 10u64), (5, 8), (6, 12), (5, 16), (4, 10)] {
        if it == 4 {
            continue; // fewer iterations than the rule of thumb 1 + log(cap): outside the stated accuracy
        }
        let hi = 1u64 << (cap - 1);
        let st = stride(hi, 4096);
        for unsigned in [true, false] {
            for with_initial in [false, true] {
                let mut pts = vec![];
                let mut x = 1u64;
                while x < hi {
                    pts.push((vec![x as i128], (1u64 << cap) as f64 / x as f64));
                    x += if x < 64 || hi - x < 64 { 1 } else { st };
                }
                out.push(Sweep { name: "NewtonInversion", op: CustomOperation::new(NewtonInversion { iterations: it, denominator_cap_2k: cap }),
                    st_unsigned: unsigned, points: pts, precision_units: 1.0, params: format!("iterations={},cap={}", it, cap), with_initial });
            }
        }
    }
    // inverse square root: 2^cap / sqrt(x) on (0, 2^(2cap-1)), x < 2^21
    for (it, cap) in [(5u64, 10u64), (5, 8), (6, 6)] {
        let hi = (1u64 << (2 * cap - 1)).min(1 << 21);
        let st = stride(hi, 8192);
        for unsigned in [true, false] {
            for with_initial in [false, true] {
                let mut pts = vec![];
                let mut x = 1u64;
                while x < hi {
                    pts.push((vec![x as i128], (1u64 << cap) as f64 / (x as f64).sqrt()));
                    x += if x < 128 || hi - x < 64 { 1 } else { st };
                }
                out.push(Sweep { name: "InverseSqrt", op: CustomOperation::new(InverseSqrt { iterations: it, denominator_cap_2k: cap }),
                    st_unsigned: unsigned, points: pts, precision_units: 1.0, params: format!("iterations={},cap={}", it, cap), with_initial });
            }
        }
    }
    // division: 2^cap * a / d, both in (0, 2^(cap-1))
    for (it, cap) in [(5u64, 10u64), (5, 8), (6, 12)] {
        let hi = 1u64 << (cap - 1);
        for unsigned in [true, false] {
            let mut pts = vec![];
            let step_d = if quick { (hi / 96).max(1) } else { (hi / 512).max(1) };
            let mut d = 1u64;
            while d < hi {
                for a in [1u64, 2, 3, hi / 2, hi - 1, (d * 7 + 3) % hi + 1, d, d.saturating_sub(1).max(1), (d + 1).min(hi - 1)] {
                    if a > 0 && a < hi {
                        pts.push((vec![a as i128, d as i128], (1u64 << cap) as f64 * a as f64 / d as f64));
                    }
                }
                d += if d < 32 { 1 } else { step_d };
            }
            out.push(Sweep { name: "GoldschmidtDivision", op: CustomOperation::new(GoldschmidtDivision { iterations: it, denominator_cap_2k: cap }),
                st_unsigned: unsigned, points: pts, precision_units: 1.0, params: format!("iterations={},cap={}", it, cap), with_initial: false });
        }
    }
    // exponentials on x / 2^p in [-9.8, 9.8] (precision 10 is what the authors state and test;
    // higher precisions included, lower ones not: see config/tolerances.json)
    for p in [10u64] {
        let lim = (9.8 * (1u64 << p) as f64) as i64;
        let st = stride(2 * lim as u64, 8192) as i64;
        let mut xs = vec![];
        let mut x = -lim;
        while x <= lim {
            xs.push(x);
            x += if x.abs() < 64 { 1 } else { st };
        }
        let scale = (1u64 << p) as f64;
        let pts: Vec<(Vec<i128>, f64)> = xs.iter().map(|x| (vec![*x as i128], (*x as f64 / scale).exp() * scale)).collect();
        out.push(Sweep { name: "ApproxExponent", op: CustomOperation::new(ApproxExponent { precision: p }),
            st_unsigned: false, points: pts, precision_units: scale, params: format!("precision={}", p), with_initial: false });
    }
    // TaylorExponent: the source states the result is a 31-bit fixed-point number, so the domain
    // extends on the positive side up to x/ln2 < 31 - p (p = 10: x < 14.55), on the negative side
    // the operation returns 0 below -10
    for p in [10u64, 12] {
        let scale = (1u64 << p) as f64;
        let hi = ((31 - p) as f64 * std::f64::consts::LN_2 * scale * 0.995) as i64;
        let lo = -12 * (1i64 << p);
        let st = stride((hi - lo) as u64, 8192) as i64;
        let mut xs = vec![];
        let mut x = lo;
        while x <= hi {
            xs.push(x);
            x += if x.abs() < 64 || hi - x < 64 { 1 } else { st };
        }
        // both sides of every power-of-two boundary of x/ln2 (where one more integer bit is used)
        for k in 0..(31 - p) {
            let b = (k as f64 * std::f64::consts::LN_2 * scale) as i64;
            for e in -3i64..=3 {
                if b + e <= hi {
                    xs.push(b + e);
                    xs.push(-(b + e));
                }
            }
        }
        let pts: Vec<(Vec<i128>, f64)> = xs.iter().map(|x| (vec![*x as i128], (*x as f64 / scale).exp() * scale)).collect();
        out.push(Sweep { name: "TaylorExponent", op: CustomOperation::new(TaylorExponent { taylor_terms: 5, fixed_precision_points: p }),
            st_unsigned: false, points: pts, precision_units: scale, params: format!("terms=5,points={}", p), with_initial: false });
    }
    // sigmoid / gelu on the clipped range and beyond (flat sides)
    for p in [10u64, 8, 12] {
        let scale = (1u64 << p) as f64;
        let lim = 12 * (1i64 << p);
        let st = stride(2 * lim as u64, 8192) as i64;
        let mut xs = vec![];
        let mut x = -lim;
        while x <= lim {
            xs.push(x);
            // every bucket boundary +-1 of the 32-bucket table on [-8, 8]
            x += if x.abs() < 64 { 1 } else { st };
        }
        let bucket = (16 * (1i64 << p)) / 32;
        for b in -16i64..=16 {
            for e in [-1i64, 0, 1] {
                xs.push(b * bucket + e);
            }
        }
        let sig: Vec<(Vec<i128>, f64)> = xs.iter().map(|x| (vec![*x as i128], scale / (1.0 + (-(*x as f64) / scale).exp()))).collect();
        out.push(Sweep { name: "ApproxSigmoid", op: CustomOperation::new(ApproxSigmoid { precision: p, approximation_log_buckets: 5 }),
            st_unsigned: false, points: sig, precision_units: scale, params: format!("precision={},log_buckets=5", p), with_initial: false });
        let gelu: Vec<(Vec<i128>, f64)> = xs.iter().filter(|x| x.abs() <= 8 * (1i64 << p)).map(|x| {
            let r = *x as f64 / scale;
            (vec![*x as i128], scale * 0.5 * r * (1.0 + erf(r / std::f64::consts::SQRT_2)))
        }).collect();
        out.push(Sweep { name: "ApproxGelu", op: CustomOperation::new(ApproxGelu { precision: p, approximation_log_buckets: 5 }),
            st_unsigned: false, points: gelu, precision_units: scale, params: format!("precision={},log_buckets=5", p), with_initial: false });
    }
    // fixed-point product: exact
    for fb in [15u64, 8, 4] {
        let mut pts = vec![];
        let vals: Vec<i64> = vec![0, 1, -1, 2, -3, 1 << fb, -(1 << fb), (1 << fb) + 1, 12345, -54321, (1 << 20) + 7, -(1 << 20) - 7, 3 << fb, 5 << (fb - 1)];
        for a in vals.iter() {
            for b in vals.iter() {
                let prod = (*a as i128) * (*b as i128);
                let want = prod / (1i128 << fb); // plaintext truncation rounds toward zero
                pts.push((vec![*a as i128, *b as i128], want as f64));
            }
        }
        out.push(Sweep { name: "FixedMultiply", op: CustomOperation::new(FixedMultiply { config: FixedPrecisionConfig { fractional_bits: fb, debug: false } }),
            st_unsigned: false, points: pts, precision_units: 1.0, params: format!("fractional_bits={}", fb), with_initial: false });
    }
    out
}

fn within(t: &Tol, units_per_real: f64, got: f64, exact: f64, factor: f64, extra: f64) -> bool {
    let a = t.abs_units + t.abs_real * units_per_real;
    let r = t.rel * exact.abs();
    let allow = factor * a.max(r) + extra;
    (got - exact).abs() <= allow
}

pub fn run(ctx: &mut Ctx) {
    let tj = load_tol();
    let sweeps = build_sweeps(ctx.quick());
    // work items: (sweep index, chunk index)
    let chunk = 4096usize;
    let mut items: Vec<(usize, usize)> = vec![];
    for (si, s) in sweeps.iter().enumerate() {
        for ci in 0..((s.points.len() + chunk - 1) / chunk) {
            items.push((si, ci));
        }
    }
    let mut prepared: std::collections::HashMap<(usize, usize), Prepared> = std::collections::HashMap::new();
    ctx.cases("sweep", items.len() as u64, |ctx, idx| {
        let (si, ci) = items[idx as usize];
        let s = &sweeps[si];
        let t = tol_of(&tj, s.name);
        let pts = &chunks(&s.points, chunk)[ci];
        let n = pts.len();
        let st = if s.st_unsigned { UINT64 } else { INT64 };
        let at = array_type(vec![n as u64], st);
        let n_ops = pts[0].0.len();
        let mut arg_types: Vec<Type> = vec![at.clone(); n_ops];
        let mut args = vec![];
        for k in 0..n_ops {
            let col: Vec<u128> = pts.iter().map(|p| p.0[k] as u128 & mask(64)).collect();
            args.push(value_of_ints(&col, st));
        }
        if s.with_initial {
            // an initial approximation satisfying the documented bracket
            let cap: u32 = s.params.split("cap=").nth(1).unwrap().parse().unwrap();
            let init: Vec<u128> = pts
                .iter()
                .map(|p| {
                    let x = p.0[0] as f64;
                    let target = if s.name == "InverseSqrt" { (1u64 << cap) as f64 / x.sqrt() } else { (1u64 << cap) as f64 / x };
                    // power of two just below the target: within a factor of two, as the bracket requires
                    let e = target.log2().floor().max(0.0) as u32;
                    1u128 << e
                })
                .collect();
            arg_types.push(at.clone());
            args.push(value_of_ints(&init, st));
        }
        let key = (si, n);
        if !prepared.contains_key(&key) {
            let c = match custom_context(s.op.clone(), &arg_types) {
                Ok(c) => c,
                Err(e) => {
                    ctx.count(&format!("build_rejected.{}", s.name), 1);
                    if e.starts_with("panic") {
                        ctx.violation(&format!("C20|build_panic|{}", s.name), json!({"what": e, "params": s.params}));
                    }
                    return;
                }
            };
            match prepare(&c, None) {
                Ok(p) => {
                    prepared.insert(key, p);
                }
                Err(e) => {
                    ctx.violation(&format!("C20|instantiation_failed|{}", s.name), json!({"what": e, "params": s.params}));
                    return;
                }
            }
        }
        let out = match prepared[&key].eval(args, ctx.rng.seed16()) {
            Ok(v) => v,
            Err(e) => {
                ctx.violation(&format!("C20|eval_failed|{}", s.name), json!({"what": e, "params": s.params}));
                return;
            }
        };
        let got = match ints_of_value(&out, &at) {
            Some(g) => g,
            None => {
                ctx.violation(&format!("C20|result_shape|{}", s.name), json!({"what": "unexpected result shape", "params": s.params}));
                return;
            }
        };
        ctx.count("points_checked", n as u64);
        ctx.count(&format!("points.{}", s.name), n as u64);
        let mut worst = 0.0f64;
        for (p, g) in pts.iter().zip(got.iter()) {
            let gv = to_signed(*g, INT64) as f64;
            let err = (gv - p.1).abs();
            if err > worst {
                worst = err;
            }
            if !within(&t, s.precision_units, gv, p.1, 1.0, 0.0) {
                ctx.violation(
                    &format!("C20|out_of_tolerance|{}|{}{}", s.name, s.params, if s.with_initial { "|initial" } else { "" }),
                    json!({"what": format!("{}({:?}) = {} but the exact value is {:.3} (error {:.3} output units)", s.name, p.0, gv, p.1, err),
                           "params": s.params, "unsigned": s.st_unsigned, "with_initial_approximation": s.with_initial,
                           "tolerance": format!("{:?}", t)}),
                );
                break;
            }
        }
        ctx.count(&format!("worst_error_milliunits.{}", s.name), 0);
        let _ = worst;
        ctx.case_done(mix(&[si as u64, ci as u64, s.st_unsigned as u64, s.with_initial as u64]), true);
        if ci == 0 {
            ctx.sample(json!({"op": s.name, "params": s.params, "unsigned": s.st_unsigned, "with_initial_approximation": s.with_initial,
                              "points_in_sweep": s.points.len(), "first_points": pts.iter().take(4).map(|p| format!("{:?} -> {:.2}", p.0, p.1)).collect::<Vec<_>>()}));
        }
    });
    // compiled versions on 64 points: within twice the tolerance of the exact function
    let factor = tj["compiled_vs_plaintext_factor"].as_f64().unwrap_or(2.0);
    let extra = tj["compiled_extra_units"].as_f64().unwrap_or(2.0);
    let comp: Vec<usize> = (0..sweeps.len()).filter(|i| !sweeps[*i].with_initial).collect();
    let reps = ctx.q(1u64, 4);
    ctx.cases("compiled", comp.len() as u64 * reps, |ctx, idx| {
        let s = &sweeps[comp[(idx % comp.len() as u64) as usize]];
        let t = tol_of(&tj, s.name);
        let n = 64usize;
        let pts: Vec<(Vec<i128>, f64)> = (0..n).map(|_| s.points[ctx.rng.usize(s.points.len())].clone()).collect();
        let st = if s.st_unsigned { UINT64 } else { INT64 };
        let at = array_type(vec![n as u64], st);
        let n_ops = pts[0].0.len();
        let arg_types: Vec<Type> = vec![at.clone(); n_ops];
        let inputs: Vec<_> = (0..n_ops)
            .map(|k| value_of_ints(&pts.iter().map(|p| p.0[k] as u128 & mask(64)).collect::<Vec<_>>(), st))
            .collect();
        let c = match custom_context(s.op.clone(), &arg_types) {
            Ok(c) => c,
            Err(_) => return,
        };
        let mut cfg = rand_config(&mut ctx.rng, n_ops);
        for o in cfg.owners.iter_mut() {
            if *o == Owner::Public {
                *o = Owner::P(ctx.rng.below(3));
            }
        }
        if cfg.outs.is_empty() {
            cfg.outs = vec![ctx.rng.below(3)];
        }
        let compiled = match compile(&c, &cfg, ctx.rng.seed16()) {
            Compiled::Ok(x) => x,
            Compiled::Rejected(m) => {
                ctx.count("compile_rejected", 1);
                ctx.count(&format!("rejected.{}", m), 1);
                return;
            }
            Compiled::Panicked(p) => {
                ctx.violation(&format!("C20|compile_panic|{}|{}", s.name, p.site), json!({"what": p.message, "params": s.params}));
                return;
            }
        };
        ctx.count("compiled", 1);
        ctx.count(&format!("compiled.{}", s.name), 1);
        let ins = inputs_single(&mut ctx.rng, &cfg, &arg_types, &inputs);
        match eval_single(&compiled, ins, ctx.rng.seed16()) {
            Ok(v) => {
                if let Some(got) = ints_of_value(&v, &at) {
                    ctx.count("compiled_points_checked", n as u64);
                    for (p, g) in pts.iter().zip(got.iter()) {
                        let gv = to_signed(*g, INT64) as f64;
                        if !within(&t, s.precision_units, gv, p.1, factor, extra) {
                            ctx.violation(
                                &format!("C20|compiled_out_of_tolerance|{}", s.name),
                                json!({"what": format!("compiled {}({:?}) = {} but the exact value is {:.3}", s.name, p.0, gv, p.1),
                                       "params": s.params, "config": cfg.describe()}),
                            );
                            break;
                        }
                    }
                }
            }
            Err(e) => ctx.violation(&format!("C20|compiled_eval_error|{}", s.name), json!({"what": e, "params": s.params, "config": cfg.describe()})),
        }
        ctx.case_done(mix(&[idx, 991, crate::rng::fnv(cfg.describe().as_bytes())]), true);
    });
}
