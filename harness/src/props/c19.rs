//! C19 — joins implement the documented relational semantics, also when compiled.
//! Reference: a relational join written from the Graph::join / join_with_column_masks
//! documentation (row-aligned result, zero filling, null markers), independent of evaluators/join.rs.

use super::custom_common::build_context;
use super::mpc_common::*;
use crate::ctx::Ctx;
use crate::rng::{mix, Rng};
use crate::val::*;
use ciphercore_base::data_types::{
    array_type, named_tuple_type, tuple_type, ScalarType, Type, BIT, INT32, INT64, UINT16, UINT64, UINT8,
};
use ciphercore_base::data_values::Value;
use ciphercore_base::graphs::{Context, JoinType};
use ciphercore_base::type_inference::NULL_HEADER;
use serde_json::json;
use std::collections::HashMap;

#[derive(Clone, Debug)]
pub struct Col {
    pub name: String,
    pub st: ScalarType,
    /// shape of one row (empty = one scalar per row)
    pub row_shape: Vec<u64>,
    /// per row: mask bit (1 when unmasked variant) and data elements
    pub mask: Vec<u8>,
    pub data: Vec<Vec<u128>>,
}

#[derive(Clone, Debug)]
pub struct JTable {
    pub n: usize,
    /// position of the null column among the columns
    pub null_pos: usize,
    pub null: Vec<u8>,
    pub cols: Vec<Col>,
    pub masked: bool,
}

impl Col {
    fn row_len(&self) -> usize {
        self.row_shape.iter().product::<u64>() as usize
    }
    fn data_type(&self, n: usize) -> Type {
        let mut s = vec![n as u64];
        s.extend(self.row_shape.iter());
        array_type(s, self.st)
    }
    fn col_type(&self, n: usize, masked: bool) -> Type {
        if masked {
            tuple_type(vec![array_type(vec![n as u64], BIT), self.data_type(n)])
        } else {
            self.data_type(n)
        }
    }
    fn value(&self, masked: bool) -> Value {
        let flat: Vec<u128> = self.data.iter().flatten().cloned().collect();
        let d = value_of_ints(&flat, self.st);
        if masked {
            let m: Vec<u128> = self.mask.iter().map(|x| *x as u128).collect();
            Value::from_vector(vec![value_of_ints(&m, BIT), d])
        } else {
            d
        }
    }
    fn zero_like(&self) -> Col {
        Col { name: self.name.clone(), st: self.st, row_shape: self.row_shape.clone(), mask: vec![], data: vec![] }
    }
}

impl JTable {
    pub fn ty(&self) -> Type {
        let mut v: Vec<(String, Type)> = self.cols.iter().map(|c| (c.name.clone(), c.col_type(self.n, self.masked))).collect();
        v.insert(self.null_pos.min(v.len()), (NULL_HEADER.to_string(), array_type(vec![self.n as u64], BIT)));
        named_tuple_type(v)
    }
    pub fn value(&self) -> Value {
        let mut v: Vec<Value> = self.cols.iter().map(|c| c.value(self.masked)).collect();
        let nulls: Vec<u128> = self.null.iter().map(|x| *x as u128).collect();
        v.insert(self.null_pos.min(v.len()), value_of_ints(&nulls, BIT));
        Value::from_vector(v)
    }
    fn col(&self, name: &str) -> &Col {
        self.cols.iter().find(|c| c.name == name).unwrap()
    }
    fn matchable(&self, i: usize, keys: &[String]) -> bool {
        self.null[i] == 1 && keys.iter().all(|k| self.col(k).mask[i] == 1)
    }
    fn key(&self, i: usize, keys: &[String]) -> Vec<u128> {
        keys.iter().flat_map(|k| self.col(k).data[i].clone()).collect()
    }
}

/// result builder: columns in result order with per-row (mask, data)
struct Res {
    null: Vec<u8>,
    cols: Vec<Col>,
}

impl Res {
    fn zero_row(&mut self) {
        self.null.push(0);
        for c in self.cols.iter_mut() {
            c.mask.push(0);
            let z = vec![0u128; c.row_len()];
            c.data.push(z);
        }
    }
    fn zero_entry(&mut self, name: &str) {
        let c = self.cols.iter_mut().find(|c| c.name == name).unwrap();
        c.mask.push(0);
        let z = vec![0u128; c.row_len()];
        c.data.push(z);
    }
    /// copy an entry; a masked-out source entry becomes a zero entry
    fn copy(&mut self, target: &str, src: &Col, i: usize) {
        let c = self.cols.iter_mut().find(|c| c.name == target).unwrap();
        if src.mask[i] == 1 {
            c.mask.push(1);
            c.data.push(src.data[i].clone());
        } else {
            c.mask.push(0);
            let z = vec![0u128; c.row_len()];
            c.data.push(z);
        }
    }
}

/// The documented join. `pairs`: (key header of a, key header of b).
pub fn reference_join(a: &JTable, b: &JTable, jt: JoinType, pairs: &[(String, String)]) -> JTable {
    let ka: Vec<String> = pairs.iter().map(|p| p.0.clone()).collect();
    let kb: Vec<String> = pairs.iter().map(|p| p.1.clone()).collect();
    // full join = union_join(a, left_join(b, a))
    if jt == JoinType::Full {
        let rev: Vec<(String, String)> = pairs.iter().map(|p| (p.1.clone(), p.0.clone())).collect();
        let lj = reference_join(b, a, JoinType::Left, &rev);
        return reference_join_union(a, &lj, pairs, true);
    }
    if jt == JoinType::Union {
        return reference_join_union(a, b, pairs, false);
    }
    let b_nonkey: Vec<&Col> = b.cols.iter().filter(|c| !kb.contains(&c.name)).collect();
    let mut res = Res { null: vec![], cols: a.cols.iter().map(|c| c.zero_like()).chain(b_nonkey.iter().map(|c| c.zero_like())).collect() };
    let mut index: HashMap<Vec<u128>, usize> = HashMap::new();
    for j in 0..b.n {
        if b.matchable(j, &kb) {
            index.insert(b.key(j, &kb), j);
        }
    }
    for i in 0..a.n {
        let m = if a.matchable(i, &ka) { index.get(&a.key(i, &ka)).cloned() } else { None };
        match jt {
            JoinType::Inner => match m {
                Some(j) => {
                    res.null.push(1);
                    for c in a.cols.iter() {
                        res.copy(&c.name, c, i);
                    }
                    for c in b_nonkey.iter() {
                        res.copy(&c.name, c, j);
                    }
                }
                None => res.zero_row(),
            },
            _ => {
                // Left
                if a.null[i] == 0 {
                    res.zero_row();
                    continue;
                }
                res.null.push(1);
                for c in a.cols.iter() {
                    res.copy(&c.name, c, i);
                }
                for c in b_nonkey.iter() {
                    match m {
                        Some(j) => res.copy(&c.name, c, j),
                        None => res.zero_entry(&c.name),
                    }
                }
            }
        }
    }
    JTable { n: a.n, null_pos: a.null_pos, null: res.null, cols: res.cols, masked: a.masked }
}

/// union join; with `merge_same` the second table may carry non-key columns named like columns of
/// the first one (the left-join intermediate of a full join): those are taken from the second table
fn reference_join_union(a: &JTable, b: &JTable, pairs: &[(String, String)], merge_same: bool) -> JTable {
    let ka: Vec<String> = pairs.iter().map(|p| p.0.clone()).collect();
    let kb: Vec<String> = pairs.iter().map(|p| p.1.clone()).collect();
    let a_names: Vec<String> = a.cols.iter().map(|c| c.name.clone()).collect();
    let b_unique: Vec<&Col> = b.cols.iter().filter(|c| !kb.contains(&c.name) && !a_names.contains(&c.name)).collect();
    let mut res = Res { null: vec![], cols: a.cols.iter().map(|c| c.zero_like()).chain(b_unique.iter().map(|c| c.zero_like())).collect() };
    let mut index: HashMap<Vec<u128>, usize> = HashMap::new();
    for j in 0..b.n {
        if b.matchable(j, &kb) {
            index.insert(b.key(j, &kb), j);
        }
    }
    // rows of the first set that are not in the inner join
    for i in 0..a.n {
        if a.null[i] == 0 {
            res.zero_row();
            continue;
        }
        let in_inner = a.matchable(i, &ka) && index.contains_key(&a.key(i, &ka));
        if in_inner {
            res.zero_row();
        } else {
            res.null.push(1);
            for c in a.cols.iter() {
                res.copy(&c.name, c, i);
            }
            for c in b_unique.iter() {
                res.zero_entry(&c.name);
            }
        }
    }
    // all rows of the second set
    for j in 0..b.n {
        if b.null[j] == 0 {
            res.zero_row();
            continue;
        }
        res.null.push(1);
        for c in a.cols.iter() {
            if let Some(p) = ka.iter().position(|k| *k == c.name) {
                res.copy(&c.name, b.col(&kb[p]), j);
            } else if merge_same && b.cols.iter().any(|x| x.name == c.name) {
                res.copy(&c.name, b.col(&c.name), j);
            } else {
                res.zero_entry(&c.name);
            }
        }
        for c in b_unique.iter() {
            res.copy(&c.name, c, j);
        }
    }
    JTable { n: a.n + b.n, null_pos: a.null_pos, null: res.null, cols: res.cols, masked: a.masked }
}

pub struct JoinCase {
    pub a: JTable,
    pub b: JTable,
    pub pairs: Vec<(String, String)>,
    pub jt: JoinType,
    pub masked: bool,
}

pub fn gen_join_case(rng: &mut Rng, max_rows: usize, jt: JoinType, masked: bool) -> JoinCase {
    let nk = rng.range(1, 3) as usize;
    // key column layouts (scalar type, row shape)
    let key_defs: Vec<(ScalarType, Vec<u64>)> = (0..nk)
        .map(|_| {
            let st = *rng.pick(&ALL_ST);
            let shape = match rng.below(3) {
                0 => vec![],
                1 => vec![rng.range(1, 4)],
                _ => vec![rng.range(1, 2), rng.range(1, 3)],
            };
            (st, shape)
        })
        .collect();
    let rename = rng.bool();
    let pairs: Vec<(String, String)> = (0..nk).map(|i| (format!("k{}", i), if rename { format!("q{}", i) } else { format!("k{}", i) })).collect();
    let (na, nb) = (rng.range(1, max_rows as u64) as usize, rng.range(1, max_rows as u64) as usize);
    // a pool of distinct key tuples; small alphabets so that partial overlaps of single columns occur
    let narrow = rng.bool();
    let mut pool: Vec<Vec<Vec<u128>>> = vec![];
    let mut seen = std::collections::HashSet::new();
    let mut guard = 0;
    while pool.len() < na + nb && guard < 2000 {
        guard += 1;
        let k: Vec<Vec<u128>> = key_defs
            .iter()
            .map(|(st, sh)| {
                let len = sh.iter().product::<u64>() as usize;
                (0..len)
                    .map(|_| if narrow { rng.below(3) as u128 & mask(st_bits(*st)) } else { rand_int(rng, *st, Fill::Uniform) })
                    .collect()
            })
            .collect();
        if seen.insert(k.clone()) {
            pool.push(k);
        }
    }
    let overlap = match rng.below(3) {
        0 => 0,
        1 => na.min(nb),
        _ => rng.usize(na.min(nb) + 1),
    };
    let mk = |rng: &mut Rng, n: usize, key_names: Vec<String>, keys: Vec<Vec<Vec<u128>>>, prefix: &str| -> JTable {
        let null: Vec<u8> = (0..n).map(|_| if rng.chance(1, 4) { 0 } else { 1 }).collect();
        let mut cols: Vec<Col> = vec![];
        for (ki, (st, sh)) in key_defs.iter().enumerate() {
            let mut data = vec![];
            let mut maskv = vec![];
            for i in 0..n {
                if null[i] == 1 && i < keys.len() {
                    data.push(keys[i][ki].clone());
                } else {
                    // null rows: arbitrary content (ignored by the join)
                    let len = sh.iter().product::<u64>() as usize;
                    data.push((0..len).map(|_| rand_int(rng, *st, Fill::Uniform)).collect());
                }
                maskv.push(if masked && rng.chance(1, 6) { 0 } else { 1 });
            }
            cols.push(Col { name: key_names[ki].clone(), st: *st, row_shape: sh.clone(), mask: maskv, data });
        }
        for p in 0..rng.range(0, 2) {
            let st = *rng.pick(&ALL_ST);
            let sh: Vec<u64> = (0..rng.below(2)).map(|_| rng.range(1, 3)).collect();
            let len = sh.iter().product::<u64>() as usize;
            let data = (0..n).map(|_| (0..len).map(|_| rand_int(rng, st, Fill::Uniform)).collect()).collect();
            let maskv = (0..n).map(|_| if masked && rng.chance(1, 6) { 0 } else { 1 }).collect();
            cols.push(Col { name: format!("{}{}", prefix, p), st, row_shape: sh, mask: maskv, data });
        }
        // shuffle column order
        let mut order: Vec<usize> = (0..cols.len()).collect();
        rng.shuffle(&mut order);
        let cols: Vec<Col> = order.into_iter().map(|i| cols[i].clone()).collect();
        let null_pos = rng.usize(cols.len() + 1);
        JTable { n, null_pos, null, cols, masked }
    };
    // keys of live rows: a takes pool[0..na], b takes `overlap` of them plus fresh ones; order shuffled
    let mut keys_a: Vec<Vec<Vec<u128>>> = pool.iter().take(na).cloned().collect();
    let mut keys_b: Vec<Vec<Vec<u128>>> = pool.iter().take(overlap).cloned().collect();
    keys_b.extend(pool.iter().skip(na).take(nb - overlap.min(nb)).cloned());
    while keys_a.len() < na {
        keys_a.push(pool[0].clone());
    }
    rng.shuffle(&mut keys_a);
    rng.shuffle(&mut keys_b);
    let a = mk(rng, na, pairs.iter().map(|p| p.0.clone()).collect(), keys_a, "pa");
    // duplicates inside b are impossible (pool entries are distinct); if the pool ran short, pad by
    // making the extra rows null
    let mut b = mk(rng, nb, pairs.iter().map(|p| p.1.clone()).collect(), keys_b.clone(), "pb");
    for i in keys_b.len()..nb {
        b.null[i] = 0;
    }
    // the same for a when the pool ran short
    let mut a = a;
    let mut seen_a = std::collections::HashSet::new();
    let ka: Vec<String> = pairs.iter().map(|p| p.0.clone()).collect();
    for i in 0..a.n {
        if a.matchable(i, &ka) && !seen_a.insert(a.key(i, &ka)) {
            a.null[i] = 0;
        }
    }
    let kb: Vec<String> = pairs.iter().map(|p| p.1.clone()).collect();
    let mut seen_b = std::collections::HashSet::new();
    for j in 0..b.n {
        if b.matchable(j, &kb) && !seen_b.insert(b.key(j, &kb)) {
            b.null[j] = 0;
        }
    }
    JoinCase { a, b, pairs, jt, masked }
}

/// Large tables with one scalar key column: with at least 512 rows the protocol sizes its cuckoo
/// table at 2-4 slots per row (instead of 128+ per row below 512), so a good share of the second
/// table's rows end up in their second- or third-choice slot.
pub fn gen_dense_case(rng: &mut Rng, n: usize, jt: JoinType, masked: bool) -> JoinCase {
    let kst = *rng.pick(&[UINT16, INT32, UINT64, INT64]);
    let rename = rng.bool();
    let pairs = vec![("k0".to_string(), if rename { "q0".to_string() } else { "k0".to_string() })];
    let nb = n + rng.usize(9);
    let na = n / 2 + rng.usize(n / 2 + 1);
    let mut seen = std::collections::HashSet::new();
    let mut pool: Vec<u128> = vec![];
    while pool.len() < na + nb {
        let k = rand_int(rng, kst, Fill::Uniform);
        if seen.insert(k) {
            pool.push(k);
        }
    }
    let overlap = na.min(nb) / 2 + rng.usize(na.min(nb) / 2 + 1);
    let mut keys_a: Vec<u128> = pool[..na].to_vec();
    let mut keys_b: Vec<u128> = pool[..overlap].to_vec();
    keys_b.extend(pool[na..na + (nb - overlap)].iter().cloned());
    rng.shuffle(&mut keys_a);
    rng.shuffle(&mut keys_b);
    let mut mk = |n: usize, key_name: &str, keys: &[u128], payload: &str| -> JTable {
        let null: Vec<u8> = (0..n).map(|_| if rng.chance(1, 8) { 0 } else { 1 }).collect();
        let pst = *rng.pick(&[INT32, UINT64, UINT8]);
        let key_col = Col {
            name: key_name.to_string(),
            st: kst,
            row_shape: vec![],
            mask: (0..n).map(|_| if masked && rng.chance(1, 8) { 0 } else { 1 }).collect(),
            data: keys.iter().map(|k| vec![*k]).collect(),
        };
        let pay_col = Col {
            name: payload.to_string(),
            st: pst,
            row_shape: vec![],
            mask: (0..n).map(|_| if masked && rng.chance(1, 8) { 0 } else { 1 }).collect(),
            data: (0..n).map(|_| vec![rand_int(rng, pst, Fill::Uniform)]).collect(),
        };
        let cols = if rng.bool() { vec![key_col, pay_col] } else { vec![pay_col, key_col] };
        JTable { n, null_pos: rng.usize(3), null, cols, masked }
    };
    let a = mk(na, &pairs[0].0, &keys_a, "pa0");
    let b = mk(nb, &pairs[0].1, &keys_b, "pb0");
    JoinCase { a, b, pairs, jt, masked }
}

/// where two tables of the same named-tuple type differ: per column, the number of differing rows
/// and the first ones
pub fn table_diff(want: &Value, got: &Value, t: &Type) -> serde_json::Value {
    let mut out = vec![];
    let cols = match t {
        Type::NamedTuple(v) => v.clone(),
        _ => return json!("result type is not a named tuple"),
    };
    let (w, g) = match (want.to_vector(), got.to_vector()) {
        (Ok(w), Ok(g)) if w.len() == cols.len() && g.len() == cols.len() => (w, g),
        _ => return json!("result is not a vector of columns"),
    };
    for (i, (name, ct)) in cols.iter().enumerate() {
        let parts: Vec<(String, Type, Value, Value)> = match &**ct {
            Type::Tuple(ts) if ts.len() == 2 => {
                let (wv, gv) = match (w[i].to_vector(), g[i].to_vector()) {
                    (Ok(a), Ok(b)) if a.len() == 2 && b.len() == 2 => (a, b),
                    _ => continue,
                };
                vec![
                    (format!("{}.mask", name), (*ts[0]).clone(), wv[0].clone(), gv[0].clone()),
                    (format!("{}.data", name), (*ts[1]).clone(), wv[1].clone(), gv[1].clone()),
                ]
            }
            _ => vec![(name.clone(), (**ct).clone(), w[i].clone(), g[i].clone())],
        };
        for (nm, ty, wv, gv) in parts {
            if let (Some(a), Some(b)) = (ints_of_value(&wv, &ty), ints_of_value(&gv, &ty)) {
                let rows = ty.get_shape()[0] as usize;
                let per = a.len() / rows.max(1);
                let bad: Vec<usize> = (0..rows).filter(|r| a[r * per..(r + 1) * per] != b[r * per..(r + 1) * per]).collect();
                if !bad.is_empty() {
                    let first: Vec<String> = bad.iter().take(4).map(|r| format!("row {}: want {:?} got {:?}", r, &a[r * per..(r + 1) * per], &b[r * per..(r + 1) * per])).collect();
                    out.push(json!({"column": nm, "rows_differing": bad.len(), "first": first}));
                }
            }
        }
    }
    json!(out)
}

/// the input rows behind the first differing result row (for reports)
fn row_context(case: &JoinCase, want: &Value, got: &Value, t: &Type) -> serde_json::Value {
    let diff = table_diff(want, got, t);
    let first = diff.as_array().and_then(|a| a.first()).and_then(|c| c["first"][0].as_str().map(|s| s.to_string()));
    let r: usize = match first.and_then(|s| s.split(|c| c == ' ' || c == ':').nth(1).and_then(|x| x.parse().ok())) {
        Some(r) => r,
        None => return json!(null),
    };
    let ka: Vec<String> = case.pairs.iter().map(|p| p.0.clone()).collect();
    let kb: Vec<String> = case.pairs.iter().map(|p| p.1.clone()).collect();
    let describe = |tb: &JTable, i: usize| -> serde_json::Value {
        json!({"row": i, "null": tb.null[i],
               "cols": tb.cols.iter().map(|c| json!({"name": c.name, "mask": c.mask[i], "data": format!("{:?}", c.data[i])})).collect::<Vec<_>>()})
    };
    let (tb, i, other, ko, kt) = if r < case.a.n { (&case.a, r, &case.b, &kb, &ka) } else { (&case.b, r - case.a.n, &case.a, &ka, &kb) };
    if i >= tb.n {
        return json!(null);
    }
    let key = tb.key(i, kt);
    let partners: Vec<serde_json::Value> = (0..other.n).filter(|j| other.key(*j, ko) == key).map(|j| describe(other, j)).collect();
    json!({"result_row": r, "from": if r < case.a.n { "first table" } else { "second table" }, "input_row": describe(tb, i),
           "rows_of_other_table_with_same_key_data": partners})
}

pub fn join_context(case: &JoinCase) -> Result<Context, String> {
    let headers: HashMap<String, String> = case.pairs.iter().cloned().collect();
    let (jt, masked) = (case.jt, case.masked);
    build_context(&[case.a.ty(), case.b.ty()], move |g, i| {
        if masked {
            g.join_with_column_masks(i[0].clone(), i[1].clone(), jt, headers)
        } else {
            g.join(i[0].clone(), i[1].clone(), jt, headers)
        }
    })
}

const JTS: [JoinType; 4] = [JoinType::Inner, JoinType::Left, JoinType::Union, JoinType::Full];

fn jt_name(jt: JoinType) -> &'static str {
    match jt {
        JoinType::Inner => "Inner",
        JoinType::Left => "Left",
        JoinType::Union => "Union",
        JoinType::Full => "Full",
    }
}

pub fn run(ctx: &mut Ctx) {
    let total = ctx.q(8000, 200000);
    ctx.cases("plain", total, |ctx, idx| {
        let jt = JTS[(idx % 4) as usize];
        let masked = (idx / 4) % 2 == 1;
        let case = gen_join_case(&mut ctx.rng, 8, jt, masked);
        let c = match join_context(&case) {
            Ok(c) => c,
            Err(e) => {
                ctx.count("join_graph_rejected", 1);
                ctx.count(&format!("rejected.{}", first_line(&e)), 1);
                return;
            }
        };
        ctx.count(&format!("plain.{}.{}", jt_name(jt), if masked { "masked" } else { "plain" }), 1);
        let want = reference_join(&case.a, &case.b, jt, &case.pairs);
        let out_t = c.get_main_graph().unwrap().get_output_node().unwrap().get_type().unwrap();
        // result type from type inference: row count and column order
        if want.ty() != out_t {
            ctx.violation(
                &format!("C19|result_type|{}", jt_name(jt)),
                json!({"what": format!("documented result layout {} but type inference gives {}", want.ty(), out_t)}),
            );
            return;
        }
        match eval_single(&c, vec![case.a.value(), case.b.value()], ctx.rng.seed16()) {
            Ok(v) => {
                ctx.count("plaintext_joins_compared", 1);
                ctx.count("rows_compared", want.n as u64);
                if v != want.value() {
                    ctx.violation(
                        &format!("C19|plaintext_join_wrong|{}|{}", jt_name(jt), if masked { "masked" } else { "plain" }),
                        json!({"what": "plaintext join differs from the documented relational semantics",
                               "type_a": format!("{}", case.a.ty()), "type_b": format!("{}", case.b.ty()), "keys": case.pairs,
                               "a": value_json(&case.a.value()), "b": value_json(&case.b.value()),
                               "got": value_json(&v), "want": value_json(&want.value())}),
                    );
                }
            }
            Err(e) => ctx.violation(
                &format!("C19|plaintext_join_failed|{}", jt_name(jt)),
                json!({"what": e, "type_a": format!("{}", case.a.ty()), "type_b": format!("{}", case.b.ty())}),
            ),
        }
        ctx.case_done(mix(&[idx, crate::rng::fnv(format!("{}{}", case.a.ty(), case.b.ty()).as_bytes())]), case.a.n + case.b.n >= 3);
        if idx < 32 {
            ctx.sample(json!({"join": jt_name(jt), "masked": masked, "type_a": format!("{}", case.a.ty()),
                              "type_b": format!("{}", case.b.ty()), "keys": case.pairs}));
        }
    });
    // compiled joins (seconds each): single evaluator and three parties
    // "compiled_big" (thorough only, minutes per case): tables of up to 16 rows, other cuckoo table sizes
    // "compiled_dense": at least 512 rows in the second table (the other cuckoo sizing regime)
    // (the many small cases last: in the thorough tier they run until the soft deadline)
    let phases = [
        ("compiled_dense", ctx.q(12, 192), 512),
        ("compiled_big", ctx.q(0, 48), 16),
        ("compiled", ctx.q(32u64, 2400), ctx.q(4usize, 8)),
    ];
    for (phase, total, mr) in phases {
    ctx.cases(phase, total, |ctx, idx| {
        let jt = JTS[(idx % 4) as usize];
        let masked = (idx / 4) % 3 == 2;
        let dense = phase == "compiled_dense";
        let case = if dense { gen_dense_case(&mut ctx.rng, mr, jt, masked) } else { gen_join_case(&mut ctx.rng, mr, jt, masked) };
        let c = match join_context(&case) {
            Ok(c) => c,
            Err(_) => return,
        };
        let types = vec![case.a.ty(), case.b.ty()];
        let inputs = vec![case.a.value(), case.b.value()];
        let mut cfg = rand_config(&mut ctx.rng, 2);
        // owner classes of interest: both private (any parties / shared), one public table
        match if dense { 0 } else { (idx / 12) % 4 } {
            0 => {
                if dense {
                    // both tables private
                    for o in cfg.owners.iter_mut() {
                        if *o == Owner::Public {
                            *o = Owner::Shared;
                        }
                    }
                }
            }
            1 => cfg.owners[1] = Owner::Public,
            2 => cfg.owners[0] = Owner::Public,
            _ => {
                cfg.owners[0] = Owner::P(ctx.rng.below(3));
                cfg.owners[1] = Owner::P(ctx.rng.below(3));
            }
        }
        let class = match (cfg.owners[0], cfg.owners[1]) {
            (Owner::Public, Owner::Public) => "public-public",
            (Owner::Public, _) => "public-private",
            (_, Owner::Public) => "private-public",
            _ => "private-private",
        };
        let expected = match source_eval(&c, &inputs, ctx.rng.seed16()) {
            Ok(v) => v,
            Err(_) => return,
        };
        let out_type = c.get_main_graph().unwrap().get_output_node().unwrap().get_type().unwrap();
        let compiled = match compile(&c, &cfg, ctx.rng.seed16()) {
            Compiled::Ok(x) => x,
            Compiled::Rejected(m) => {
                ctx.count("compile_rejected", 1);
                ctx.count(&format!("rejected.{}", m), 1);
                return;
            }
            Compiled::Panicked(p) => {
                ctx.violation(&format!("C19|compile_panic|{}", p.site), json!({"what": p.message, "config": cfg.describe()}));
                return;
            }
        };
        ctx.count("compiled", 1);
        ctx.count(&format!("{}.{}.{}", phase, jt_name(jt), class), 1);
        ctx.count("compiled_rows", (case.a.n + case.b.n) as u64);
        ctx.count("compiled_nodes", compiled.get_main_graph().map(|g| g.get_num_nodes()).unwrap_or(0));
        let detail = |what: String| {
            json!({"what": what, "join": jt_name(jt), "masked": masked, "owners": class, "config": cfg.describe(),
                   "type_a": format!("{}", case.a.ty()), "type_b": format!("{}", case.b.ty()), "keys": case.pairs,
                   "a": value_json(&case.a.value()), "b": value_json(&case.b.value())})
        };
        // every execution draws fresh PRF keys, hence a fresh cuckoo placement of the second table
        for _ in 0..(if dense { 1 } else { 4 }) {
            let ins = inputs_single(&mut ctx.rng, &cfg, &types, &inputs);
            match eval_single(&compiled, ins, ctx.rng.seed16()) {
                Ok(v) => {
                    ctx.count("compiled_executions", 1);
                    let got = reveal_single(&cfg, &v, &out_type).ok();
                    if got.as_ref() != Some(&expected) {
                        let mut d = detail("compiled secure join returns a different table than plaintext evaluation".into());
                        if let Some(g) = got.as_ref() {
                            d["diff"] = table_diff(&expected, g, &out_type);
                            d["rows"] = json!([case.a.n, case.b.n]);
                            d["row_context"] = row_context(&case, &expected, g, &out_type);
                        }
                        ctx.violation(&format!("C19|compiled_join_differs|{}|{}", jt_name(jt), class), d);
                    }
                }
                Err(e) => {
                    if super::c01::tolerated_abort(&e) {
                        ctx.count("tolerated_abort", 1);
                    } else {
                        ctx.violation(&format!("C19|compiled_eval_error|{}", first_line(&e)), detail(e));
                    }
                }
            }
        }
        for junk in [Fill::Zeros, Fill::Uniform] {
            if dense && (ctx.quick() || junk == Fill::Zeros) {
                continue;
            }
            let ins = inputs_party(&mut ctx.rng, &cfg, &types, &inputs, junk);
            let seeds = seeds3(&mut ctx.rng);
            let js = ctx.rng.next_u64();
            if let Ok(run) = run_parties(&compiled, &ins, seeds, js, None) {
                ctx.count("three_party_executions", 1);
                ctx.count("messages", run.msgs.len() as u64);
                let aborted = run.first_error.iter().flatten().any(|e| super::c01::tolerated_abort(e));
                for (kind, what) in check_party_outputs(&cfg, &run, &expected, &out_type) {
                    if aborted {
                        ctx.count("tolerated_abort", 1);
                        continue;
                    }
                    ctx.violation(&format!("C19|three_party|{}|{}|{}", kind, jt_name(jt), class), detail(what));
                }
            }
        }
        ctx.case_done(mix(&[idx, 77, crate::rng::fnv(cfg.describe().as_bytes())]), class != "public-public");
        if idx < 8 {
            ctx.sample(json!({"phase": phase, "join": jt_name(jt), "masked": masked, "config": cfg.describe(),
                              "type_a": format!("{}", case.a.ty()), "type_b": format!("{}", case.b.ty())}));
        }
    });
    }
}
