//! C16 — comparison operations and Min/Max equal native integer comparison.

use super::custom_common::*;
use super::mpc_common::inline_modes;
use crate::ctx::Ctx;
use crate::rng::{mix, Rng};
use crate::val::{decode, mask};
use ciphercore_base::custom_ops::CustomOperation;
use ciphercore_base::data_types::{array_type, BIT};
use ciphercore_base::ops::comparisons::{
    Equal, GreaterThan, GreaterThanEqualTo, LessThan, LessThanEqualTo, NotEqual,
};
use ciphercore_base::ops::min_max::{Max, Min};
use serde_json::json;

const OPS: [&str; 8] = ["GreaterThan", "LessThan", "GreaterThanEqualTo", "LessThanEqualTo", "Equal", "NotEqual", "Min", "Max"];

fn make_op(name: &str, signed: bool) -> CustomOperation {
    match name {
        "GreaterThan" => CustomOperation::new(GreaterThan { signed_comparison: signed }),
        "LessThan" => CustomOperation::new(LessThan { signed_comparison: signed }),
        "GreaterThanEqualTo" => CustomOperation::new(GreaterThanEqualTo { signed_comparison: signed }),
        "LessThanEqualTo" => CustomOperation::new(LessThanEqualTo { signed_comparison: signed }),
        "Equal" => CustomOperation::new(Equal {}),
        "NotEqual" => CustomOperation::new(NotEqual {}),
        "Min" => CustomOperation::new(Min { signed_comparison: signed }),
        _ => CustomOperation::new(Max { signed_comparison: signed }),
    }
}

/// native result: for comparisons 0/1, for min/max the chosen operand
fn native(name: &str, signed: bool, a: u128, b: u128, w: usize) -> u128 {
    let lt = if signed { signed_of(a, w) < signed_of(b, w) } else { a < b };
    let gt = if signed { signed_of(a, w) > signed_of(b, w) } else { a > b };
    match name {
        "GreaterThan" => gt as u128,
        "LessThan" => lt as u128,
        "GreaterThanEqualTo" => (!lt) as u128,
        "LessThanEqualTo" => (!gt) as u128,
        "Equal" => (a == b) as u128,
        "NotEqual" => (a != b) as u128,
        "Min" => if lt { a } else { b },
        _ => if gt { a } else { b },
    }
}

fn run_one(
    ctx: &mut Ctx,
    name: &str,
    signed: bool,
    w: usize,
    lead_a: &[u64],
    lead_b: &[u64],
    a: &[u128],
    b: &[u128],
    inline_idx: Option<usize>,
    tag: &str,
) {
    let mut sa = lead_a.to_vec();
    sa.push(w as u64);
    let mut sb = lead_b.to_vec();
    sb.push(w as u64);
    let ta = array_type(sa, BIT);
    let tb = array_type(sb, BIT);
    let c = match custom_context(make_op(name, signed), &[ta.clone(), tb.clone()]) {
        Ok(c) => c,
        Err(e) => {
            // rejected at build time: outside the property (e.g. signed with 1 bit)
            ctx.count(&format!("build_rejected.{}", if e.starts_with("panic") { "panic" } else { "error" }), 1);
            if e.starts_with("panic") {
                ctx.violation(&format!("C16|build_panic|{}", name), json!({"what": e, "w": w}));
            }
            return;
        }
    };
    let inline = inline_idx.map(|i| inline_modes()[i].0.clone());
    let res = eval_instantiated(&c, inline, vec![bits_value(a, w), bits_value(b, w)], ctx.rng.seed16());
    let out = match res {
        Ok(v) => v,
        Err(e) => {
            ctx.violation(
                &format!("C16|eval_failed|{}|signed={}", name, signed),
                json!({"what": format!("evaluation of an accepted comparison graph failed: {}", e), "w": w,
                       "shapes": format!("{:?} x {:?}", lead_a, lead_b)}),
            );
            return;
        }
    };
    let r_shape = broadcast_shapes(lead_a, lead_b).unwrap();
    let count: usize = r_shape.iter().product::<u64>() as usize;
    let is_minmax = name == "Min" || name == "Max";
    let got: Option<Vec<u128>> = if is_minmax {
        nums_of_bits(&out, count, w)
    } else {
        out.access(|b| Ok(decode(b, BIT, count)), |_| Ok(None)).ok().flatten()
    };
    let got = match got {
        Some(g) => g,
        None => {
            ctx.violation(
                &format!("C16|result_shape|{}", name),
                json!({"what": "result does not have the broadcast shape", "w": w,
                       "shapes": format!("{:?} x {:?}", lead_a, lead_b)}),
            );
            return;
        }
    };
    ctx.count("pairs_compared", count as u64);
    ctx.count(&format!("op.{}.{}", name, if signed { "signed" } else { "unsigned" }), 1);
    ctx.count(&format!("width.{}", w), 1);
    for i in 0..count {
        let idx = unravel(i, &r_shape);
        let x = a[bcast_index(&idx, lead_a)];
        let y = b[bcast_index(&idx, lead_b)];
        let want = native(name, signed, x, y, w);
        if got[i] != want {
            ctx.violation(
                &format!("C16|wrong_result|{}|signed={}|{}", name, signed, tag),
                json!({"what": format!("{}({}, {}) at width {} returned {} instead of {}", name, x, y, w, got[i], want),
                       "signed": signed, "w": w, "shapes": format!("{:?} x {:?}", lead_a, lead_b),
                       "inline": inline_idx}),
            );
            break;
        }
    }
}

fn interesting_pairs(rng: &mut Rng, w: usize, n: usize) -> (Vec<u128>, Vec<u128>) {
    let m = mask(w as u32);
    let mut a = vec![];
    let mut b = vec![];
    for _ in 0..n {
        let x = match rng.below(6) {
            0 => 0,
            1 => m,
            2 => 1u128 << (w - 1),
            3 => (1u128 << (w - 1)).wrapping_sub(1) & m,
            _ => rng.next_u128() & m,
        };
        let y = match rng.below(7) {
            0 => x,
            1 => x.wrapping_add(1) & m,
            2 => x.wrapping_sub(1) & m,
            3 => x ^ (1u128 << rng.below(w as u64)),
            4 => x ^ (1u128 << (w - 1)),
            5 => !x & m,
            _ => rng.next_u128() & m,
        };
        a.push(x);
        b.push(y);
    }
    (a, b)
}

pub fn run(ctx: &mut Ctx) {
    // exhaustive operand pairs for small widths: one vectorised graph per (width, op, signedness)
    let wmax = ctx.q(7usize, 9);
    let combos: Vec<(usize, usize, bool)> = (1..=wmax)
        .flat_map(|w| (0..8).flat_map(move |o| [false, true].into_iter().map(move |s| (w, o, s))))
        .filter(|(w, o, s)| !(*s && (*w < 2 || *o == 4 || *o == 5)))
        .collect();
    ctx.cases("exhaustive", combos.len() as u64, |ctx, idx| {
        let (w, o, s) = combos[idx as usize];
        let n = 1u64 << w;
        let all: Vec<u128> = (0..n as u128).collect();
        run_one(ctx, OPS[o], s, w, &[n, 1], &[n], &all, &all, None, "exhaustive");
        ctx.case_done(mix(&[w as u64, o as u64, s as u64]), true);
        ctx.sample(json!({"phase": "exhaustive", "op": OPS[o], "signed": s, "width": w, "pairs": n * n}));
    });
    // wider operands: structured and uniform pairs, broadcast shape pairs
    let widths: Vec<usize> = (7..=16).chain([17, 24, 31, 32, 33, 63, 64, 65, 127, 128]).collect();
    let total = ctx.q(60000, 600000);
    ctx.cases("wide", total, |ctx, idx| {
        let w = widths[(idx as usize) % widths.len()];
        let o = ctx.rng.usize(8);
        let s = ctx.rng.bool() && o != 4 && o != 5;
        let n = ctx.rng.range(2, 24);
        let (lead_a, lead_b): (Vec<u64>, Vec<u64>) = match ctx.rng.below(6) {
            0 => (vec![n], vec![n]),
            1 => (vec![n], vec![]),
            2 => (vec![], vec![n]),
            3 => (vec![n, 1], vec![3]),
            4 => (vec![2, n], vec![1, n]),
            _ => (vec![n, 1], vec![1, 2]),
        };
        let ca: usize = lead_a.iter().product::<u64>() as usize;
        let cb: usize = lead_b.iter().product::<u64>() as usize;
        let (a, b) = interesting_pairs(&mut ctx.rng, w, ca.max(cb));
        let inline_idx = if ctx.quick() { None } else { [None, Some(0), Some(1), Some(2)][ctx.rng.usize(4)] };
        run_one(ctx, OPS[o], s, w, &lead_a, &lead_b, &a[..ca], &b[..cb], inline_idx, "wide");
        ctx.case_done(mix(&[idx, w as u64, o as u64, s as u64, ca as u64, 99]), true);
    });
}
