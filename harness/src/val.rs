//! Value / type helpers with an independent implementation of the documented byte layout
//! (little-endian integers; bits packed LSB-first, eight to a byte, zero padded).

use crate::rng::Rng;
use ciphercore_base::data_types::{
    ScalarType, Type, BIT, INT128, INT16, INT32, INT64, INT8, UINT128, UINT16, UINT32, UINT64,
    UINT8,
};
use ciphercore_base::data_values::Value;
use serde_json::{json, Value as J};

pub const ALL_ST: [ScalarType; 11] = [
    BIT, UINT8, INT8, UINT16, INT16, UINT32, INT32, UINT64, INT64, UINT128, INT128,
];
pub const INT_ST: [ScalarType; 10] = [
    UINT8, INT8, UINT16, INT16, UINT32, INT32, UINT64, INT64, UINT128, INT128,
];

pub fn st_bits(st: ScalarType) -> u32 {
    match st {
        ScalarType::Bit => 1,
        ScalarType::U8 | ScalarType::I8 => 8,
        ScalarType::U16 | ScalarType::I16 => 16,
        ScalarType::U32 | ScalarType::I32 => 32,
        ScalarType::U64 | ScalarType::I64 => 64,
        ScalarType::U128 | ScalarType::I128 => 128,
    }
}

pub fn st_signed(st: ScalarType) -> bool {
    matches!(
        st,
        ScalarType::I8 | ScalarType::I16 | ScalarType::I32 | ScalarType::I64 | ScalarType::I128
    )
}

pub fn st_name(st: ScalarType) -> &'static str {
    match st {
        ScalarType::Bit => "b",
        ScalarType::U8 => "u8",
        ScalarType::I8 => "i8",
        ScalarType::U16 => "u16",
        ScalarType::I16 => "i16",
        ScalarType::U32 => "u32",
        ScalarType::I32 => "i32",
        ScalarType::U64 => "u64",
        ScalarType::I64 => "i64",
        ScalarType::U128 => "u128",
        ScalarType::I128 => "i128",
    }
}

pub fn mask(bits: u32) -> u128 {
    if bits >= 128 {
        u128::MAX
    } else {
        (1u128 << bits) - 1
    }
}

/// reduce to the unsigned representative mod 2^w
pub fn wrap(x: u128, st: ScalarType) -> u128 {
    x & mask(st_bits(st))
}

/// signed interpretation of the w-bit pattern
pub fn to_signed(x: u128, st: ScalarType) -> i128 {
    let w = st_bits(st);
    let x = x & mask(w);
    if st_signed(st) && w < 128 && (x >> (w - 1)) & 1 == 1 {
        (x | !mask(w)) as i128
    } else {
        x as i128
    }
}

pub fn num_elements(shape: &[u64]) -> u64 {
    shape.iter().product()
}

/// Independent encoder of the documented layout.
pub fn encode(ints: &[u128], st: ScalarType) -> Vec<u8> {
    let w = st_bits(st);
    if w == 1 {
        let mut out = vec![0u8; (ints.len() + 7) / 8];
        for (i, x) in ints.iter().enumerate() {
            if x & 1 == 1 {
                out[i / 8] |= 1 << (i % 8);
            }
        }
        out
    } else {
        let nb = (w / 8) as usize;
        let mut out = Vec::with_capacity(ints.len() * nb);
        for x in ints {
            out.extend_from_slice(&x.to_le_bytes()[..nb]);
        }
        out
    }
}

/// Independent decoder: n elements of scalar type st, as unsigned representatives.
pub fn decode(bytes: &[u8], st: ScalarType, n: usize) -> Option<Vec<u128>> {
    let w = st_bits(st);
    if w == 1 {
        if bytes.len() != (n + 7) / 8 {
            return None;
        }
        Some((0..n).map(|i| ((bytes[i / 8] >> (i % 8)) & 1) as u128).collect())
    } else {
        let nb = (w / 8) as usize;
        if bytes.len() != n * nb {
            return None;
        }
        let mut out = Vec::with_capacity(n);
        for i in 0..n {
            let mut b = [0u8; 16];
            b[..nb].copy_from_slice(&bytes[i * nb..(i + 1) * nb]);
            out.push(u128::from_le_bytes(b));
        }
        Some(out)
    }
}

pub fn type_elems(t: &Type) -> usize {
    match t {
        Type::Scalar(_) => 1,
        Type::Array(shape, _) => num_elements(shape) as usize,
        _ => panic!("type_elems on container"),
    }
}

pub fn value_of_ints(ints: &[u128], st: ScalarType) -> Value {
    Value::from_bytes(encode(ints, st))
}

pub fn ints_of_value(v: &Value, t: &Type) -> Option<Vec<u128>> {
    let st = t.get_scalar_type();
    let n = type_elems(t);
    v.access(|b| Ok(decode(b, st, n)), |_| Ok(None)).ok().flatten()
}

/// "interesting" integers for a scalar type: boundaries and values beyond 64 bits.
pub fn special_ints(st: ScalarType) -> Vec<u128> {
    let w = st_bits(st);
    let m = mask(w);
    let mut v = vec![0u128, 1, m, m - 1 & m];
    if w > 1 {
        v.push(1u128 << (w - 1)); // min signed / 2^(w-1)
        v.push((1u128 << (w - 1)) - 1); // max signed
        v.push(2);
        v.push(m >> 1);
    }
    if w > 64 {
        v.push(1u128 << 63);
        v.push(1u128 << 64);
        v.push((1u128 << 64) + 1);
        v.push((1u128 << 100) + 12345);
        v.push(u64::MAX as u128);
    }
    if w == 64 {
        v.push(1u128 << 63);
        v.push(1u128 << 32);
    }
    v.iter().map(|x| x & m).collect()
}

#[derive(Clone, Copy, Debug, PartialEq, Eq)]
pub enum Fill {
    Uniform,
    /// mostly special values
    Extreme,
    /// small magnitudes (|x| < 16)
    Small,
    Zeros,
    Ones,
}

pub fn rand_int(rng: &mut Rng, st: ScalarType, fill: Fill) -> u128 {
    let w = st_bits(st);
    let m = mask(w);
    match fill {
        Fill::Uniform => rng.next_u128() & m,
        Fill::Extreme => {
            if rng.chance(3, 4) {
                let s = special_ints(st);
                *rng.pick(&s)
            } else {
                rng.next_u128() & m
            }
        }
        Fill::Small => {
            let x = rng.below(16) as u128;
            if st_signed(st) && rng.bool() {
                x.wrapping_neg() & m
            } else {
                x & m
            }
        }
        Fill::Zeros => 0,
        Fill::Ones => m,
    }
}

/// Random value of an arbitrary type, built from raw bytes by the independent encoder.
pub fn rand_value(rng: &mut Rng, t: &Type, fill: Fill) -> Value {
    match t {
        Type::Scalar(st) => value_of_ints(&[rand_int(rng, *st, fill)], *st),
        Type::Array(shape, st) => {
            let n = num_elements(shape) as usize;
            let ints: Vec<u128> = (0..n).map(|_| rand_int(rng, *st, fill)).collect();
            value_of_ints(&ints, *st)
        }
        Type::Vector(n, et) => {
            Value::from_vector((0..*n).map(|_| rand_value(rng, et, fill)).collect())
        }
        Type::Tuple(ts) => Value::from_vector(ts.iter().map(|x| rand_value(rng, x, fill)).collect()),
        Type::NamedTuple(ts) => {
            Value::from_vector(ts.iter().map(|(_, x)| rand_value(rng, x, fill)).collect())
        }
    }
}

pub fn pick_fill(rng: &mut Rng) -> Fill {
    match rng.below(10) {
        0..=4 => Fill::Uniform,
        5..=7 => Fill::Extreme,
        8 => Fill::Small,
        _ => {
            if rng.bool() {
                Fill::Zeros
            } else {
                Fill::Ones
            }
        }
    }
}

pub fn hex(bytes: &[u8]) -> String {
    let mut s = String::with_capacity(bytes.len() * 2);
    for b in bytes {
        s.push_str(&format!("{:02x}", b));
    }
    s
}

pub fn unhex(s: &str) -> Vec<u8> {
    (0..s.len() / 2)
        .map(|i| u8::from_str_radix(&s[2 * i..2 * i + 2], 16).unwrap())
        .collect()
}

/// JSON form of a value tree: hex string for bytes, list for vectors.
pub fn value_json(v: &Value) -> J {
    v.access(
        |b| {
            if b.len() > 512 {
                Ok(json!(format!("{}..({} bytes)", hex(&b[..64]), b.len())))
            } else {
                Ok(json!(hex(b)))
            }
        },
        |vs| Ok(J::Array(vs.iter().map(value_json).collect())),
    )
    .unwrap_or(J::Null)
}

/// Full (untruncated) JSON form, for event logs consumed by the Python reference model.
pub fn value_json_full(v: &Value) -> J {
    v.access(
        |b| Ok(json!(hex(b))),
        |vs| Ok(J::Array(vs.iter().map(value_json_full).collect())),
    )
    .unwrap_or(J::Null)
}

pub fn value_from_json(j: &J) -> Value {
    match j {
        J::String(s) => Value::from_bytes(unhex(s)),
        J::Array(a) => Value::from_vector(a.iter().map(value_from_json).collect()),
        _ => panic!("bad value json"),
    }
}

/// Canonical byte string of a value tree (for hashing / histogram keys).
pub fn canon(v: &Value, out: &mut Vec<u8>) {
    enum K {
        B(Vec<u8>),
        V(Vec<Value>),
    }
    let k = v
        .access(|b| Ok(K::B(b.to_vec())), |vs| Ok(K::V(vs.clone())))
        .unwrap();
    match k {
        K::B(b) => {
            out.push(b'B');
            out.extend_from_slice(&(b.len() as u32).to_le_bytes());
            out.extend_from_slice(&b);
        }
        K::V(vs) => {
            out.push(b'V');
            out.extend_from_slice(&(vs.len() as u32).to_le_bytes());
            for x in vs.iter() {
                canon(x, out);
            }
        }
    }
}

/// Independent structural check of a value against a type: byte length from shape x width,
/// arity of containers. Returns Err(description) on mismatch; Ok(stray) where stray is the
/// number of bit arrays with non-zero padding bits in their last byte.
pub fn layout_check(v: &Value, t: &Type) -> Result<u64, String> {
    match t {
        Type::Scalar(_) | Type::Array(_, _) => {
            let st = t.get_scalar_type();
            let n = type_elems(t);
            let w = st_bits(st) as usize;
            let want = (n * w + 7) / 8;
            let r = v.access(
                |b| {
                    if b.len() != want {
                        return Ok(Err(format!(
                            "byte length {} != {} for {}",
                            b.len(),
                            want,
                            type_str(t)
                        )));
                    }
                    let mut stray = 0;
                    if w == 1 && n % 8 != 0 {
                        let last = b[b.len() - 1];
                        if last >> (n % 8) != 0 {
                            stray = 1;
                        }
                    }
                    Ok(Ok(stray))
                },
                |_| Ok(Err(format!("vector value for {}", type_str(t)))),
            );
            match r {
                Ok(x) => x,
                Err(e) => Err(format!("access error {}", e)),
            }
        }
        Type::Vector(n, et) => {
            let kids = v
                .access(|_| Ok(None), |vs| Ok(Some(vs.clone())))
                .ok()
                .flatten()
                .ok_or_else(|| format!("bytes value for {}", type_str(t)))?;
            if kids.len() as u64 != *n {
                return Err(format!("arity {} != {} for {}", kids.len(), n, type_str(t)));
            }
            let mut s = 0;
            for k in kids.iter() {
                s += layout_check(k, et)?;
            }
            Ok(s)
        }
        Type::Tuple(ts) => {
            let kids = v
                .access(|_| Ok(None), |vs| Ok(Some(vs.clone())))
                .ok()
                .flatten()
                .ok_or_else(|| format!("bytes value for {}", type_str(t)))?;
            if kids.len() != ts.len() {
                return Err(format!("arity {} != {} for {}", kids.len(), ts.len(), type_str(t)));
            }
            let mut s = 0;
            for (k, kt) in kids.iter().zip(ts.iter()) {
                s += layout_check(k, kt)?;
            }
            Ok(s)
        }
        Type::NamedTuple(ts) => {
            let kids = v
                .access(|_| Ok(None), |vs| Ok(Some(vs.clone())))
                .ok()
                .flatten()
                .ok_or_else(|| format!("bytes value for {}", type_str(t)))?;
            if kids.len() != ts.len() {
                return Err(format!("arity {} != {} for {}", kids.len(), ts.len(), type_str(t)));
            }
            let mut s = 0;
            for (k, (_, kt)) in kids.iter().zip(ts.iter()) {
                s += layout_check(k, kt)?;
            }
            Ok(s)
        }
    }
}

pub fn type_str(t: &Type) -> String {
    format!("{}", t)
}

/// Generalised addition of value trees of a given type, independent of ciphercore's
/// `generalized_add` (used to reveal shared outputs).
pub fn tree_add(a: &Value, b: &Value, t: &Type) -> Value {
    match t {
        Type::Scalar(_) | Type::Array(_, _) => {
            let st = t.get_scalar_type();
            let x = ints_of_value(a, t).expect("tree_add decode a");
            let y = ints_of_value(b, t).expect("tree_add decode b");
            let z: Vec<u128> = x
                .iter()
                .zip(y.iter())
                .map(|(p, q)| {
                    if st == BIT {
                        (p ^ q) & 1
                    } else {
                        wrap(p.wrapping_add(*q), st)
                    }
                })
                .collect();
            value_of_ints(&z, st)
        }
        Type::Vector(_, et) => {
            let ka = a.to_vector().unwrap();
            let kb = b.to_vector().unwrap();
            Value::from_vector(ka.iter().zip(kb.iter()).map(|(x, y)| tree_add(x, y, et)).collect())
        }
        Type::Tuple(ts) => {
            let ka = a.to_vector().unwrap();
            let kb = b.to_vector().unwrap();
            Value::from_vector(
                (0..ts.len()).map(|i| tree_add(&ka[i], &kb[i], &ts[i])).collect(),
            )
        }
        Type::NamedTuple(ts) => {
            let ka = a.to_vector().unwrap();
            let kb = b.to_vector().unwrap();
            Value::from_vector(
                (0..ts.len()).map(|i| tree_add(&ka[i], &kb[i], &ts[i].1)).collect(),
            )
        }
    }
}

pub fn tree_sub(a: &Value, b: &Value, t: &Type) -> Value {
    match t {
        Type::Scalar(_) | Type::Array(_, _) => {
            let st = t.get_scalar_type();
            let x = ints_of_value(a, t).expect("tree_sub decode a");
            let y = ints_of_value(b, t).expect("tree_sub decode b");
            let z: Vec<u128> = x
                .iter()
                .zip(y.iter())
                .map(|(p, q)| {
                    if st == BIT {
                        (p ^ q) & 1
                    } else {
                        wrap(p.wrapping_sub(*q), st)
                    }
                })
                .collect();
            value_of_ints(&z, st)
        }
        Type::Vector(_, et) => {
            let ka = a.to_vector().unwrap();
            let kb = b.to_vector().unwrap();
            Value::from_vector(ka.iter().zip(kb.iter()).map(|(x, y)| tree_sub(x, y, et)).collect())
        }
        Type::Tuple(ts) => {
            let ka = a.to_vector().unwrap();
            let kb = b.to_vector().unwrap();
            Value::from_vector(
                (0..ts.len()).map(|i| tree_sub(&ka[i], &kb[i], &ts[i])).collect(),
            )
        }
        Type::NamedTuple(ts) => {
            let ka = a.to_vector().unwrap();
            let kb = b.to_vector().unwrap();
            Value::from_vector(
                (0..ts.len()).map(|i| tree_sub(&ka[i], &kb[i], &ts[i].1)).collect(),
            )
        }
    }
}

/// Split a value into three additive shares with the harness' own generator.
pub fn share3(rng: &mut Rng, v: &Value, t: &Type) -> [Value; 3] {
    let s0 = rand_value(rng, t, Fill::Uniform);
    let s1 = rand_value(rng, t, Fill::Uniform);
    let s2 = tree_sub(&tree_sub(v, &s0, t), &s1, t);
    [s0, s1, s2]
}

pub fn type_has_bits(t: &Type) -> bool {
    match t {
        Type::Scalar(st) | Type::Array(_, st) => *st == BIT,
        Type::Vector(_, et) => type_has_bits(et),
        Type::Tuple(ts) => ts.iter().any(|x| type_has_bits(x)),
        Type::NamedTuple(ts) => ts.iter().any(|(_, x)| type_has_bits(x)),
    }
}
