use std::io::Write;
use vx::ctx::{install_panic_hook, Ctx, Tier};

fn arg(args: &[String], name: &str) -> Option<String> {
    args.iter().position(|a| a == name).and_then(|i| args.get(i + 1).cloned())
}

fn main() {
    let args: Vec<String> = std::env::args().collect();
    if args.len() < 3 || args[1] != "run" {
        eprintln!("usage: vx run <PROP> --tier quick|thorough --seed N --shard i --nshards n --out FILE [--soft-s S] [--case KEY]");
        std::process::exit(64);
    }
    let prop = args[2].clone();
    let tier = match arg(&args, "--tier").as_deref() {
        Some("thorough") => Tier::Thorough,
        _ => Tier::Quick,
    };
    let seed: u64 = arg(&args, "--seed").and_then(|s| s.parse().ok()).unwrap_or(1);
    let shard: u64 = arg(&args, "--shard").and_then(|s| s.parse().ok()).unwrap_or(0);
    let nshards: u64 = arg(&args, "--nshards").and_then(|s| s.parse().ok()).unwrap_or(1);
    let soft: u64 = arg(&args, "--soft-s").and_then(|s| s.parse().ok()).unwrap_or(3600);
    let out = arg(&args, "--out").unwrap_or_else(|| "/dev/stdout".to_string());
    install_panic_hook();
    let mut ctx = Ctx::new(&prop, tier, seed, shard, nshards, soft);
    ctx.only_case = arg(&args, "--case");
    if !vx::props::dispatch(&mut ctx) {
        eprintln!("unknown property {}", prop);
        std::process::exit(64);
    }
    let s = serde_json::to_string(&ctx.summary()).unwrap();
    let mut f = std::fs::File::create(&out).expect("cannot create output file");
    f.write_all(s.as_bytes()).unwrap();
    f.write_all(b"\n").unwrap();
}
