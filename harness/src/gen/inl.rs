//! G_inl — fully inlined graphs that stress the optimizer: foldable constant subgraphs, proxies
//! (tuples / vectors / zip / array-to-vector) with getters, A2B/B2A chains incl. sign-changing ones,
//! duplicated sub-expressions, dangling nodes, unused inputs, names, NOP[Send], Random/PRF nodes.

use super::builder::{context_hash, rand_array_type, Flavor, B};
use crate::rng::Rng;
use crate::val::{st_bits, st_signed, Fill, ALL_ST, INT_ST};
use ciphercore_base::data_types::{array_type, scalar_type, Type, BIT, UINT64};
use ciphercore_base::data_values::Value;
use ciphercore_base::graphs::{create_context, Context, Node, NodeAnnotation};

pub struct InlProg {
    pub ctx: Context,
    pub input_types: Vec<Type>,
    pub ops: Vec<String>,
    pub hash: u64,
}

impl<'a> B<'a> {
    pub fn p_send_nop(&mut self) -> Option<Node> {
        let a = self.rng.pick(&self.pool.clone()).clone();
        let r = a.nop();
        let n = self.accept(r, "NOP[Send]")?;
        let s = self.rng.below(3);
        let r2 = (s + 1 + self.rng.below(2)) % 3;
        n.add_annotation(NodeAnnotation::Send(s, r2)).ok()?;
        if self.rng.chance(1, 5) {
            // two sends on one node (as reveal to several parties does)
            n.add_annotation(NodeAnnotation::Send(r2, (r2 + 1) % 3)).ok()?;
        }
        Some(n)
    }

    pub fn p_const_expr(&mut self) -> Option<Node> {
        let st = *self.rng.pick(&ALL_ST);
        let t = rand_array_type(self.rng, st, 2, 3);
        let c1 = self.constant(t.clone(), crate::val::Fill::Extreme)?;
        let c2 = self.constant(t, Fill::Uniform)?;
        let r = match self.rng.below(3) {
            0 => self.g.add(c1, c2),
            1 => self.g.multiply(c1, c2),
            _ => self.g.subtract(c1, c2),
        };
        let n = self.accept(r, "ConstExpr")?;
        if st != BIT && self.rng.bool() {
            let r = self.g.a2b(n.clone());
            return self.accept(r, "A2B");
        }
        Some(n)
    }

    pub fn p_duplicate(&mut self) -> Option<Node> {
        let nodes = self.g.get_nodes();
        let n = self.rng.pick(&nodes).clone();
        if n.get_operation().is_input() {
            return None;
        }
        let r = self.g.add_node(n.get_node_dependencies(), vec![], n.get_operation());
        let d = self.accept(r, "Duplicate")?;
        if self.rng.chance(1, 2) && matches!(n.get_operation(), ciphercore_base::graphs::Operation::NOP) {
            // same NOP but annotated: must NOT be merged with the plain one (send markers only ever
            // sit on NOP nodes in compiler output, so only NOPs are annotated here)
            let s = self.rng.below(3);
            d.add_annotation(NodeAnnotation::Send(s, (s + 1) % 3)).ok()?;
        }
        Some(d)
    }

    /// the same binary operation with its two operands swapped, both results kept alive together
    /// (catches rewrites that treat a non-commutative operation as commutative)
    pub fn p_swapped_pair(&mut self) -> Option<Node> {
        use ciphercore_base::graphs::Operation;
        let nodes = self.g.get_nodes();
        let cands: Vec<Node> = nodes
            .iter()
            .filter(|n| {
                n.get_node_dependencies().len() == 2
                    && matches!(
                        n.get_operation(),
                        Operation::Add | Operation::Subtract | Operation::Multiply | Operation::Dot | Operation::Matmul | Operation::Gemm(_, _)
                    )
            })
            .cloned()
            .collect();
        let n = if cands.is_empty() || self.rng.chance(1, 3) {
            // make a fresh product of two matrices that can be multiplied both ways
            let st = *self.rng.pick(&INT_ST);
            let (r, c) = (self.rng.range(1, 3), self.rng.range(1, 3));
            let a = match self.pick_where(|t| *t == array_type(vec![r, c], st)) {
                Some(a) => a,
                None => self.constant(array_type(vec![r, c], st), Fill::Extreme)?,
            };
            let b = self.constant(array_type(vec![c, r], st), Fill::Uniform)?;
            let r0 = match self.rng.below(3) {
                0 => self.g.dot(a, b),
                1 => self.g.matmul(a, b),
                _ => self.g.gemm(a, b, false, false),
            };
            self.accept(r0, "MatrixProduct")?
        } else {
            self.rng.pick(&cands).clone()
        };
        let deps = n.get_node_dependencies();
        let r = self.g.add_node(vec![deps[1].clone(), deps[0].clone()], vec![], n.get_operation());
        let m = self.accept(r, "Swapped")?;
        // keep both alive in one value
        if self.ty(&n) == self.ty(&m) && self.rng.bool() {
            let r = self.g.subtract(n, m);
            self.accept(r, "Subtract")
        } else {
            let r = self.g.create_tuple(vec![n, m]);
            self.accept(r, "CreateTuple")
        }
    }

    pub fn p_name(&mut self) -> Option<Node> {
        let a = self.rng.pick(&self.pool.clone()).clone();
        let name = format!("n{}", self.rng.below(1000));
        let _ = a.set_name(&name);
        Some(a)
    }

    pub fn p_conv_chain(&mut self) -> Option<Node> {
        let a = self.pick_int_arr()?;
        let st = self.ty(&a).get_scalar_type();
        let w = st_bits(st);
        let r = self.g.a2b(a);
        let bits = self.accept(r, "A2B")?;
        // back to an integer type of the same width: same type, or the other signedness
        let cands: Vec<_> = INT_ST.iter().filter(|x| st_bits(**x) == w).cloned().collect();
        let st2 = *self.rng.pick(&cands);
        let r = self.g.b2a(bits.clone(), st2);
        let back = self.accept(r, "B2A")?;
        if self.rng.bool() {
            // again to bits (A2B of B2A cancels)
            let r = self.g.a2b(back.clone());
            self.accept(r, "A2B");
        }
        if st_signed(st2) != st_signed(st) || self.rng.bool() {
            // sign-sensitive consumer
            let r = self.g.truncate(back.clone(), *self.rng.pick(&[2u128, 3, 16]));
            return self.accept(r, "Truncate");
        }
        Some(back)
    }

    pub fn p_proxy_get(&mut self) -> Option<Node> {
        match self.rng.below(4) {
            0 => {
                let t = self.p_tuple()?;
                let _ = t;
                self.p_tuple_get()
            }
            1 => {
                self.p_vector()?;
                self.p_vector_get()
            }
            2 => {
                self.p_a2v()?;
                self.p_vector_get()
            }
            _ => {
                self.p_vector()?;
                let z = self.p_zip()?;
                let n = match self.ty(&z) {
                    Type::Vector(n, _) => n,
                    _ => return None,
                };
                if n == 0 {
                    return None;
                }
                let i = self.rng.below(n);
                let idx = {
                    let r = self
                        .g
                        .constant(scalar_type(UINT64), Value::from_scalar(i, UINT64).unwrap());
                    self.accept(r, "Constant")?
                };
                let r = self.g.vector_get(z, idx);
                let e = self.accept(r, "VectorGet")?;
                let r = self.g.tuple_get(e, self.rng.below(2));
                self.accept(r, "TupleGet")
            }
        }
    }

    pub fn p_prf_pair(&mut self) -> Option<Node> {
        // two PRF nodes with equal key and counter (must not be merged, folded or duplicated)
        let key = self.key_node()?;
        let st = *self.rng.pick(&ALL_ST);
        let t = rand_array_type(self.rng, st, 2, 3);
        let iv = self.rng.below(3);
        let r = key.prf(iv, t.clone());
        let a = self.accept(r, "PRF")?;
        let r = key.prf(iv, t);
        let b = self.accept(r, "PRF")?;
        let r = self.g.subtract(a, b);
        self.accept(r, "Subtract")
    }

    pub fn step_inl(&mut self) -> Option<Node> {
        match self.rng.below(25) {
            0..=8 => {
                // the inlined part of the MPC alphabet (no calls, no custom operations)
                match self.rng.below(22) {
                    0..=4 => self.p_arith(),
                    5 => self.p_mixed_multiply(),
                    6..=7 => self.p_matmul_like(),
                    8 => self.p_a2b(),
                    9 => self.p_b2a(),
                    10 => self.p_sum(),
                    11 => self.p_get(),
                    12 => self.p_get_slice(),
                    13 => self.p_permute(),
                    14 => self.p_reshape(),
                    15 => self.p_stack(),
                    16 => self.p_concat(),
                    17 => self.p_repeat(),
                    18 => self.p_v2a(),
                    19 => self.p_zeros_ones(),
                    20 => self.p_cumsum(),
                    _ => self.p_truncate(),
                }
            }
            9..=10 => self.p_const_expr(),
            11..=12 => self.p_duplicate(),
            13 => self.p_name(),
            14..=15 => self.p_conv_chain(),
            16..=18 => self.p_proxy_get(),
            19 => self.p_send_nop(),
            20 => self.p_random(),
            21 => self.p_prf(),
            22 => self.p_prf_pair(),
            _ => {
                if self.rng.bool() {
                    self.p_swapped_pair()
                } else {
                    self.p_nop()
                }
            }
        }
    }
}

pub fn gen_inl(rng: &mut Rng) -> InlProg {
    let ctx = create_context().unwrap();
    let g = ctx.create_graph().unwrap();
    let mut b = B::new(g.clone(), rng, Flavor::Inl);
    b.allow_custom = false;
    let n_in = b.rng.range(1, 4);
    let base = *b.rng.pick(&ALL_ST);
    let mut input_types = vec![];
    for i in 0..n_in {
        let st = if b.rng.chance(2, 3) { base } else { *b.rng.pick(&ALL_ST) };
        let t = if b.rng.chance(1, 8) {
            array_type(vec![128], BIT) // usable as a PRF key
        } else {
            rand_array_type(b.rng, st, 3, 3)
        };
        input_types.push(t.clone());
        let n = b.input(t);
        if b.rng.chance(2, 3) {
            let _ = n.set_name(&format!("in{}", i));
        }
    }
    let target = b.rng.range(4, 18);
    let mut tries = 0;
    while (b.ops.len() as u64) < target && tries < target * 5 {
        tries += 1;
        b.step_inl();
    }
    let n_pool = b.pool.len();
    // output: a late node, or a tuple of two nodes (keeps more of the graph alive)
    let out = if b.rng.chance(1, 3) && n_pool >= 3 {
        let x = b.pool[n_pool - 1].clone();
        let y = b.pool[b.rng.usize(n_pool)].clone();
        g.create_tuple(vec![x, y]).unwrap()
    } else {
        b.pool[n_pool - 1 - b.rng.usize(n_pool.min(3))].clone()
    };
    out.set_as_output().unwrap();
    let ops = b.ops.clone();
    g.finalize().unwrap();
    g.set_as_main().unwrap();
    ctx.finalize().unwrap();
    let hash = context_hash(&ctx);
    InlProg { ctx, input_types, ops, hash }
}
