//! G_iter — contexts with Call / Iterate per inlining strategy, with contract-satisfying bodies.

use super::builder::context_hash;
use crate::rng::Rng;
use crate::val::{rand_value, Fill, ALL_ST, INT_ST};
use ciphercore_base::custom_ops::CustomOperation;
use ciphercore_base::data_types::{array_type, scalar_type, tuple_type, vector_type, ScalarType, Type, BIT};
use ciphercore_base::errors::Result;
use ciphercore_base::graphs::{create_context, Context, Graph, GraphAnnotation, Node};
use ciphercore_base::ops::min_max::{Max, Min};

pub struct IterProg {
    pub ctx: Context,
    pub input_types: Vec<Type>,
    pub class: String,
    pub len: u64,
    pub desc: String,
    pub hash: u64,
    /// number of Random nodes in the iteration body (0 = deterministic)
    pub body_draws: u64,
}

fn arr(rng: &mut Rng, st: ScalarType) -> Type {
    match rng.below(4) {
        0 => scalar_type(st),
        1 => array_type(vec![rng.range(1, 3)], st),
        _ => array_type(vec![rng.range(1, 3), rng.range(1, 3)], st),
    }
}

fn bit_matrix(g: &Graph, rng: &mut Rng, k: u64) -> Result<Node> {
    let t = array_type(vec![k, k], BIT);
    let v = rand_value(rng, &t, Fill::Uniform);
    g.constant(t, v)
}

/// builds the body graph; returns (graph, state type, element type, description, draws)
fn body(ctx: &Context, rng: &mut Rng, class: &str, helper: Option<&Graph>) -> Result<(Graph, Type, Type, String, u64)> {
    let g = ctx.create_graph()?;
    let mut draws = 0;
    let (st_t, el_t, desc): (Type, Type, String) = match class {
        "general" | "random_body" => {
            let st = *rng.pick(&INT_ST);
            let t = arr(rng, st);
            let s = g.input(t.clone())?;
            let x = g.input(t.clone())?;
            let mut ns = match rng.below(4) {
                0 => s.multiply(x.clone())?.add(x.clone())?,
                1 => s.subtract(x.clone())?,
                2 => s.multiply(s.clone())?.add(x.clone())?,
                _ => x.subtract(s.clone())?.multiply(x.clone())?,
            };
            if class == "random_body" {
                let r = g.random(t.clone())?;
                ns = ns.add(r)?;
                draws = 1;
            }
            if let Some(h) = helper {
                // body calls another graph (same signature t -> t)
                ns = g.call(h.clone(), vec![ns])?;
            }
            let out = match rng.below(3) {
                0 => g.create_tuple(vec![])?,
                1 => s.add(x.clone())?,
                _ => ns.multiply(x)?,
            };
            g.create_tuple(vec![ns, out])?.set_as_output()?;
            (t.clone(), t, "general".into())
        }
        "empty_state" => {
            let st = *rng.pick(&ALL_ST);
            let t = arr(rng, st);
            let s = g.input(tuple_type(vec![]))?;
            let x = g.input(t.clone())?;
            let out = match rng.below(3) {
                0 => x.add(x.clone())?,
                1 => x.multiply(x.clone())?,
                _ => g.create_tuple(vec![x.clone(), x.clone()])?,
            };
            g.create_tuple(vec![s, out])?.set_as_output()?;
            (tuple_type(vec![]), t, "empty_state".into())
        }
        "associative" => {
            let kind = rng.below(9);
            let ist = *rng.pick(&INT_ST);
            let ast = *rng.pick(&ALL_ST);
            let (t, d): (Type, &str) = match kind {
                0 => (arr(rng, ist), "add"),
                1 => (arr(rng, ist), "multiply"),
                2 => (arr(rng, BIT), "and"),
                3 => (arr(rng, BIT), "xor"),
                4 => (array_type(vec![rng.range(1, 3), rng.range(1, 6)], BIT), "min"),
                5 => (array_type(vec![rng.range(1, 3), rng.range(2, 6)], BIT), "max"),
                6 => (array_type(vec![2, 2], ist), "matmul2x2"),
                7 => (arr(rng, ast), "take_right"),
                _ => (arr(rng, ast), "take_left"),
            };
            let s = g.input(t.clone())?;
            let x = g.input(t.clone())?;
            let signed = rng.bool();
            let ns = match d {
                "add" | "xor" => s.add(x.clone())?,
                "multiply" | "and" => s.multiply(x.clone())?,
                "min" => g.custom_op(CustomOperation::new(Min { signed_comparison: signed }), vec![s.clone(), x.clone()])?,
                "max" => g.custom_op(CustomOperation::new(Max { signed_comparison: signed }), vec![s.clone(), x.clone()])?,
                "matmul2x2" => s.matmul(x.clone())?,
                "take_right" => x.nop()?,
                _ => s.nop()?,
            };
            let out = match rng.below(4) {
                0 | 1 => g.create_tuple(vec![])?,
                2 => ns.clone(),
                _ => g.create_tuple(vec![s.clone(), x.clone()])?,
            };
            g.create_tuple(vec![ns, out])?.set_as_output()?;
            g.add_annotation(GraphAnnotation::AssociativeOperation)?;
            (t.clone(), t, format!("associative:{}", d))
        }
        "one_bit" => {
            // state: bit scalar or batched bits (last dimension omitted); body affine in the state
            let t = match rng.below(4) {
                0 => scalar_type(BIT),
                1 => array_type(vec![rng.range(1, 3)], BIT),
                2 => array_type(vec![rng.range(1, 3), 1], BIT),
                _ => array_type(vec![rng.range(1, 2), rng.range(1, 3)], BIT),
            };
            let et = tuple_type(vec![t.clone(), t.clone()]);
            let s = g.input(t.clone())?;
            let x = g.input(et.clone())?;
            let a = x.tuple_get(0)?;
            let b = x.tuple_get(1)?;
            let ns = match rng.below(3) {
                0 => s.multiply(a.clone())?.add(b.clone())?,
                1 => s.add(a.clone())?,
                _ => s.multiply(a.clone())?.add(a.multiply(b.clone())?)?,
            };
            let out = match rng.below(3) {
                0 => g.create_tuple(vec![])?,
                1 => s.add(a)?,
                _ => ns.multiply(b)?,
            };
            g.create_tuple(vec![ns, out])?.set_as_output()?;
            g.add_annotation(GraphAnnotation::OneBitState)?;
            (t, et, "one_bit".into())
        }
        _ => {
            // small state: [batch.., K] bits, body row-wise
            let k = rng.range(1, 4);
            let mut shape: Vec<u64> = (0..rng.below(3)).map(|_| rng.range(1, 3)).collect();
            shape.push(k);
            let t = array_type(shape.clone(), BIT);
            let xt = if rng.bool() { t.clone() } else { array_type(vec![k], BIT) };
            let et = tuple_type(vec![xt.clone(), xt]);
            let s = g.input(t.clone())?;
            let x = g.input(et.clone())?;
            let a = x.tuple_get(0)?;
            let b = x.tuple_get(1)?;
            let m1 = bit_matrix(&g, rng, k)?;
            let m2 = bit_matrix(&g, rng, k)?;
            let ns = match rng.below(4) {
                0 => s.matmul(m1)?.add(b.clone())?,
                1 => s.matmul(m1)?.multiply(s.matmul(m2)?.add(a.clone())?)?.add(b.clone())?,
                2 => s.multiply(a.clone())?.add(b.clone())?,
                _ => s.matmul(m1)?.multiply(a.clone())?.add(s.clone())?,
            };
            let out = match rng.below(3) {
                0 => g.create_tuple(vec![])?,
                1 => s.add(a)?,
                _ => ns.multiply(b)?,
            };
            g.create_tuple(vec![ns, out])?.set_as_output()?;
            g.add_annotation(GraphAnnotation::SmallState)?;
            (t, et, format!("small_state:k={}:rank={}", k, shape.len()))
        }
    };
    g.finalize()?;
    Ok((g, st_t, el_t, desc, draws))
}

pub const CLASSES: [&str; 6] = ["general", "empty_state", "associative", "one_bit", "small_state", "random_body"];

pub fn gen_iter(rng: &mut Rng, class: &str, len: u64) -> Option<IterProg> {
    let r = (|| -> Result<IterProg> {
        let ctx = create_context()?;
        // optional helper graph called from the body (nested call), general class only
        let helper = if class == "general" && rng.chance(1, 3) { Some(()) } else { None };
        let mut helper_graph = None;
        let mut pre_t = None;
        if helper.is_some() {
            // built lazily below once the type is known: use a fixed small type
            let st = *rng.pick(&INT_ST);
            let t = array_type(vec![2], st);
            let h = ctx.create_graph()?;
            let i = h.input(t.clone())?;
            i.add(i.clone())?.multiply(i)?.set_as_output()?;
            h.finalize()?;
            helper_graph = Some(h);
            pre_t = Some(t);
        }
        let (bg, st_t, el_t, desc, draws) = if let (Some(h), Some(t)) = (&helper_graph, &pre_t) {
            // body with the helper's type
            let g = ctx.create_graph()?;
            let s = g.input(t.clone())?;
            let x = g.input(t.clone())?;
            let ns = g.call(h.clone(), vec![s.multiply(x.clone())?.add(x.clone())?])?;
            let out = s.add(x)?;
            g.create_tuple(vec![ns, out])?.set_as_output()?;
            g.finalize()?;
            (g, t.clone(), t.clone(), "general+call".to_string(), 0)
        } else {
            body(&ctx, rng, class, None)?
        };
        // optionally wrap the iteration in a called graph, and / or iterate twice (nested use of one body)
        let wrap = rng.chance(1, 3);
        let twice = rng.chance(1, 4);
        let vt = vector_type(len, el_t.clone());
        let build = |g: &Graph, s: Node, v: Node| -> Result<Node> {
            let it = g.iterate(bg.clone(), s, v.clone())?;
            if twice {
                let s2 = it.tuple_get(0)?;
                let it2 = g.iterate(bg.clone(), s2, v)?;
                g.create_tuple(vec![it.tuple_get(1)?, it2])
            } else {
                Ok(it)
            }
        };
        let main = if wrap {
            let inner = ctx.create_graph()?;
            let s = inner.input(st_t.clone())?;
            let v = inner.input(vt.clone())?;
            build(&inner, s, v)?.set_as_output()?;
            inner.finalize()?;
            let g = ctx.create_graph()?;
            let s = g.input(st_t.clone())?;
            let v = g.input(vt.clone())?;
            g.call(inner, vec![s, v])?.set_as_output()?;
            g
        } else {
            let g = ctx.create_graph()?;
            let s = g.input(st_t.clone())?;
            let v = g.input(vt.clone())?;
            build(&g, s, v)?.set_as_output()?;
            g
        };
        main.finalize()?;
        main.set_as_main()?;
        ctx.finalize()?;
        let hash = context_hash(&ctx) ^ len.wrapping_mul(0x9E3779B97F4A7C15);
        Ok(IterProg {
            ctx,
            input_types: vec![st_t, vt],
            class: class.to_string(),
            len,
            desc: format!("{}{}{}", desc, if wrap { "+wrapped" } else { "" }, if twice { "+twice" } else { "" }),
            hash,
            body_draws: draws,
        })
    })();
    r.ok()
}
