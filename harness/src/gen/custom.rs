//! G_custom — contexts mixing library custom operations with varied parameters, repeated, nested in
//! call / iterate bodies, deliberately including one operation with different parameters on
//! identical argument types.

use super::builder::context_hash;
use crate::rng::Rng;
use ciphercore_base::custom_ops::{CustomOperation, Not, Or};
use ciphercore_base::data_types::{array_type, named_tuple_type, scalar_type, tuple_type, vector_type, Type, BIT, INT64, UINT64};
use ciphercore_base::errors::Result;
use ciphercore_base::graphs::{create_context, Context, Graph, Node};
use ciphercore_base::ops::adder::BinaryAdd;
use ciphercore_base::ops::clip::Clip2K;
use ciphercore_base::ops::comparisons::{Equal, GreaterThan, GreaterThanEqualTo, LessThan, LessThanEqualTo, NotEqual};
use ciphercore_base::ops::fixed_precision::fixed_multiply::FixedMultiply;
use ciphercore_base::ops::fixed_precision::fixed_precision_config::FixedPrecisionConfig;
use ciphercore_base::ops::goldschmidt_division::GoldschmidtDivision;
use ciphercore_base::ops::integer_key_sort::SortByIntegerKey;
use ciphercore_base::ops::inverse_sqrt::InverseSqrt;
use ciphercore_base::ops::long_division::LongDivision;
use ciphercore_base::ops::min_max::{Max, Min};
use ciphercore_base::ops::multiplexer::Mux;
use ciphercore_base::ops::newton_inversion::NewtonInversion;
use ciphercore_base::ops::pwl::approx_exponent::ApproxExponent;
use ciphercore_base::ops::pwl::approx_gelu::ApproxGelu;
use ciphercore_base::ops::pwl::approx_gelu_derivative::ApproxGeluDerivative;
use ciphercore_base::ops::pwl::approx_sigmoid::ApproxSigmoid;
use ciphercore_base::ops::taylor_exponent::TaylorExponent;

pub struct CustomProg {
    pub ctx: Context,
    pub input_types: Vec<Type>,
    /// (operation family, parameter description)
    pub ops: Vec<(String, String)>,
    /// operation family per component of the main graph's output tuple
    pub out_families: Vec<String>,
    pub hash: u64,
}

pub const FAMILIES: [&str; 24] = [
    "GreaterThan", "LessThan", "GreaterThanEqualTo", "LessThanEqualTo", "Equal", "NotEqual", "Min", "Max",
    "BinaryAdd", "Mux", "Not", "Or", "Clip2K", "SortByIntegerKey", "LongDivision", "NewtonInversion",
    "GoldschmidtDivision", "InverseSqrt", "TaylorExponent", "ApproxExponent", "ApproxSigmoid", "ApproxGelu",
    "ApproxGeluDerivative", "FixedMultiply",
];

struct Pools {
    bits: Vec<Node>,   // [n, 8] bit arrays
    ints: Vec<Node>,   // i64 arrays
    uints: Vec<Node>,  // u64 arrays
    table: Node,       // named tuple with integer columns "a", "b" and a payload
}

/// a library custom operation of the given family with parameters chosen by `sel`
pub fn make_family_op(fam: &str, sel: u64) -> CustomOperation {
    let signed = sel % 2 == 0;
    match fam {
        "GreaterThan" => CustomOperation::new(GreaterThan { signed_comparison: signed }),
        "LessThan" => CustomOperation::new(LessThan { signed_comparison: signed }),
        "GreaterThanEqualTo" => CustomOperation::new(GreaterThanEqualTo { signed_comparison: signed }),
        "LessThanEqualTo" => CustomOperation::new(LessThanEqualTo { signed_comparison: signed }),
        "Equal" => CustomOperation::new(Equal {}),
        "NotEqual" => CustomOperation::new(NotEqual {}),
        "Min" => CustomOperation::new(Min { signed_comparison: signed }),
        "Max" => CustomOperation::new(Max { signed_comparison: signed }),
        "BinaryAdd" => CustomOperation::new(BinaryAdd { overflow_bit: signed }),
        "Mux" => CustomOperation::new(Mux {}),
        "Not" => CustomOperation::new(Not {}),
        "Or" => CustomOperation::new(Or {}),
        "Clip2K" => CustomOperation::new(Clip2K { k: 1 + sel % 6 }),
        "SortByIntegerKey" => CustomOperation::new(SortByIntegerKey { key: if signed { "a".into() } else { "b".into() } }),
        "LongDivision" => CustomOperation::new(LongDivision { signed }),
        "NewtonInversion" => CustomOperation::new(NewtonInversion { iterations: 1 + sel % 4, denominator_cap_2k: 6 + sel % 6 }),
        "GoldschmidtDivision" => CustomOperation::new(GoldschmidtDivision { iterations: 1 + sel % 4, denominator_cap_2k: 6 + sel % 6 }),
        "InverseSqrt" => CustomOperation::new(InverseSqrt { iterations: 1 + sel % 4, denominator_cap_2k: 6 + 2 * (sel % 4) }),
        "TaylorExponent" => CustomOperation::new(TaylorExponent { taylor_terms: 3 + sel % 4, fixed_precision_points: 4 + sel % 8 }),
        "ApproxExponent" => CustomOperation::new(ApproxExponent { precision: 4 + sel % 8 }),
        "ApproxSigmoid" => CustomOperation::new(ApproxSigmoid { precision: 6 + sel % 6, approximation_log_buckets: 3 + sel % 3 }),
        "ApproxGelu" => CustomOperation::new(ApproxGelu { precision: 6 + sel % 6, approximation_log_buckets: 3 + sel % 3 }),
        "ApproxGeluDerivative" => CustomOperation::new(ApproxGeluDerivative { precision: 6 + sel % 6, approximation_log_buckets: 3 + sel % 3 }),
        _ => CustomOperation::new(FixedMultiply { config: FixedPrecisionConfig { fractional_bits: 4 + sel % 12, debug: sel % 3 == 0 } }),
    }
}

/// add one custom node of the given family with random parameters; returns (node, param description)
fn add_op(g: &Graph, p: &mut Pools, rng: &mut Rng, fam: &str, force: Option<u64>) -> Result<(Node, String)> {
    let pick = |v: &Vec<Node>, rng: &mut Rng| v[rng.usize(v.len())].clone();
    let sel = force.unwrap_or_else(|| rng.below(1000));
    let signed = sel % 2 == 0;
    Ok(match fam {
        "GreaterThan" | "LessThan" | "GreaterThanEqualTo" | "LessThanEqualTo" | "Equal" | "NotEqual" | "Min" | "Max"
        | "BinaryAdd" | "Or" | "LongDivision" => {
            let a = pick(&p.bits, rng);
            let b = pick(&p.bits, rng);
            let (op, d) = match fam {
                "GreaterThan" => (CustomOperation::new(GreaterThan { signed_comparison: signed }), format!("signed={}", signed)),
                "LessThan" => (CustomOperation::new(LessThan { signed_comparison: signed }), format!("signed={}", signed)),
                "GreaterThanEqualTo" => (CustomOperation::new(GreaterThanEqualTo { signed_comparison: signed }), format!("signed={}", signed)),
                "LessThanEqualTo" => (CustomOperation::new(LessThanEqualTo { signed_comparison: signed }), format!("signed={}", signed)),
                "Equal" => (CustomOperation::new(Equal {}), String::new()),
                "NotEqual" => (CustomOperation::new(NotEqual {}), String::new()),
                "Min" => (CustomOperation::new(Min { signed_comparison: signed }), format!("signed={}", signed)),
                "Max" => (CustomOperation::new(Max { signed_comparison: signed }), format!("signed={}", signed)),
                "BinaryAdd" => (CustomOperation::new(BinaryAdd { overflow_bit: signed }), format!("overflow={}", signed)),
                "Or" => (CustomOperation::new(Or {}), String::new()),
                _ => (CustomOperation::new(LongDivision { signed }), format!("signed={}", signed)),
            };
            let n = g.custom_op(op, vec![a, b])?;
            // keep the pools closed under results of the same type
            let t = n.get_type()?;
            if t == p.bits[0].get_type()? {
                p.bits.push(n.clone());
            } else if fam == "LongDivision" {
                p.bits.push(n.tuple_get(0)?);
            } else if fam == "BinaryAdd" && signed {
                p.bits.push(n.tuple_get(0)?);
            }
            (n, d)
        }
        "Not" => {
            let a = pick(&p.bits, rng);
            let n = g.custom_op(CustomOperation::new(Not {}), vec![a])?;
            p.bits.push(n.clone());
            (n, String::new())
        }
        "Mux" => {
            let a = pick(&p.bits, rng);
            let b = pick(&p.bits, rng);
            let c = pick(&p.bits, rng);
            let n = g.custom_op(CustomOperation::new(Mux {}), vec![c, a, b])?;
            p.bits.push(n.clone());
            (n, String::new())
        }
        "Clip2K" => {
            let k = 1 + sel % 6;
            let a = pick(&p.bits, rng);
            let n = g.custom_op(CustomOperation::new(Clip2K { k }), vec![a])?;
            p.bits.push(n.clone());
            (n, format!("k={}", k))
        }
        "SortByIntegerKey" => {
            let key = if sel % 2 == 0 { "a" } else { "b" };
            let n = g.custom_op(CustomOperation::new(SortByIntegerKey { key: key.to_string() }), vec![p.table.clone()])?;
            (n, format!("key={}", key))
        }
        "NewtonInversion" => {
            let (it, cap) = (1 + sel % 4, 6 + (sel / 4) % 6);
            let a = pick(&p.uints, rng);
            let n = g.custom_op(CustomOperation::new(NewtonInversion { iterations: it, denominator_cap_2k: cap }), vec![a])?;
            (n, format!("iterations={},cap={}", it, cap))
        }
        "GoldschmidtDivision" => {
            let (it, cap) = (1 + sel % 4, 6 + (sel / 4) % 6);
            let a = pick(&p.uints, rng);
            let b = pick(&p.uints, rng);
            let n = g.custom_op(CustomOperation::new(GoldschmidtDivision { iterations: it, denominator_cap_2k: cap }), vec![a, b])?;
            (n, format!("iterations={},cap={}", it, cap))
        }
        "InverseSqrt" => {
            let (it, cap) = (1 + sel % 4, 6 + 2 * ((sel / 4) % 4));
            let a = pick(&p.uints, rng);
            let n = g.custom_op(CustomOperation::new(InverseSqrt { iterations: it, denominator_cap_2k: cap }), vec![a])?;
            (n, format!("iterations={},cap={}", it, cap))
        }
        "TaylorExponent" => {
            let (terms, pts) = (3 + sel % 4, 4 + (sel / 4) % 8);
            let a = pick(&p.ints, rng);
            let n = g.custom_op(CustomOperation::new(TaylorExponent { taylor_terms: terms, fixed_precision_points: pts }), vec![a])?;
            (n, format!("terms={},points={}", terms, pts))
        }
        "ApproxExponent" => {
            let pr = 4 + sel % 8;
            let a = pick(&p.ints, rng);
            let n = g.custom_op(CustomOperation::new(ApproxExponent { precision: pr }), vec![a])?;
            (n, format!("precision={}", pr))
        }
        "ApproxSigmoid" | "ApproxGelu" | "ApproxGeluDerivative" => {
            let (pr, lb) = (6 + (sel / 3) % 6, 3 + sel % 3);
            let a = pick(&p.ints, rng);
            let op = match fam {
                "ApproxSigmoid" => CustomOperation::new(ApproxSigmoid { precision: pr, approximation_log_buckets: lb }),
                "ApproxGelu" => CustomOperation::new(ApproxGelu { precision: pr, approximation_log_buckets: lb }),
                _ => CustomOperation::new(ApproxGeluDerivative { precision: pr, approximation_log_buckets: lb }),
            };
            let n = g.custom_op(op, vec![a])?;
            (n, format!("precision={},log_buckets={}", pr, lb))
        }
        _ => {
            let fb = 4 + sel % 12;
            let a = pick(&p.ints, rng);
            let b = pick(&p.ints, rng);
            let n = g.custom_op(
                CustomOperation::new(FixedMultiply { config: FixedPrecisionConfig { fractional_bits: fb, debug: false } }),
                vec![a, b],
            )?;
            p.ints.push(n.clone());
            (n, format!("fractional_bits={}", fb))
        }
    })
}

pub fn base_types(n: u64) -> Vec<Type> {
    vec![
        array_type(vec![n, 8], BIT),
        array_type(vec![n, 8], BIT),
        array_type(vec![n], INT64),
        array_type(vec![n], UINT64),
        named_tuple_type(vec![
            ("a".to_string(), array_type(vec![n], INT64)),
            ("b".to_string(), array_type(vec![n], UINT64)),
            ("c".to_string(), array_type(vec![n, 2], BIT)),
        ]),
    ]
}

fn pools(g: &Graph, n: u64) -> Result<(Pools, Vec<Node>)> {
    let ts = base_types(n);
    let ins: Vec<Node> = ts.iter().map(|t| g.input(t.clone())).collect::<Result<Vec<_>>>()?;
    Ok((
        Pools { bits: vec![ins[0].clone(), ins[1].clone()], ints: vec![ins[2].clone()], uints: vec![ins[3].clone()], table: ins[4].clone() },
        ins,
    ))
}

/// `probe`: Some(family) builds the systematic collision probe (two parameterisations of that
/// family on identical argument types in one context); None builds a random mix.
pub fn gen_custom(rng: &mut Rng, probe: Option<&str>) -> Option<CustomProg> {
    let r = (|| -> Result<CustomProg> {
        let ctx = create_context()?;
        let n = rng.range(2, 4);
        let mut ops: Vec<(String, String)> = vec![];
        // optional callee that itself uses custom operations (nesting)
        let nested = probe.is_none() && rng.chance(1, 3);
        let mut callee: Option<Graph> = None;
        if nested {
            let cg = ctx.create_graph()?;
            let (mut p, _ins) = pools(&cg, n)?;
            let mut outs = vec![];
            for _ in 0..rng.range(1, 2) {
                let fam = *rng.pick(&FAMILIES);
                let (node, d) = add_op(&cg, &mut p, rng, fam, None)?;
                ops.push((fam.to_string(), d));
                outs.push(node);
            }
            cg.create_tuple(outs)?.set_as_output()?;
            cg.finalize()?;
            callee = Some(cg);
        }
        // optional iterate body using a custom operation (state and element: [n,8] bits)
        let iter_body = if probe.is_none() && rng.chance(1, 4) {
            let bg = ctx.create_graph()?;
            let t = array_type(vec![n, 8], BIT);
            let s = bg.input(t.clone())?;
            let x = bg.input(t.clone())?;
            let signed = rng.bool();
            let ns = bg.custom_op(CustomOperation::new(Max { signed_comparison: signed }), vec![s.clone(), x.clone()])?;
            let out = bg.custom_op(CustomOperation::new(GreaterThan { signed_comparison: signed }), vec![s, x])?;
            bg.create_tuple(vec![ns, out])?.set_as_output()?;
            bg.finalize()?;
            ops.push(("Max".into(), format!("signed={}", signed)));
            ops.push(("GreaterThan".into(), format!("signed={}", signed)));
            Some(bg)
        } else {
            None
        };
        let g = ctx.create_graph()?;
        let (mut p, ins) = pools(&g, n)?;
        let mut outs: Vec<Node> = vec![];
        let mut out_families: Vec<String> = vec![];
        match probe {
            Some(fam) => {
                // two different parameterisations, then the first one again (cache hit)
                for sel in [0u64, 1, 7, 0] {
                    let (node, d) = add_op(&g, &mut p, rng, fam, Some(sel))?;
                    ops.push((fam.to_string(), d));
                    outs.push(node);
                    out_families.push(fam.to_string());
                }
            }
            None => {
                let k = rng.range(2, 8);
                for _ in 0..k {
                    let fam = *rng.pick(&FAMILIES);
                    let (node, d) = add_op(&g, &mut p, rng, fam, None)?;
                    ops.push((fam.to_string(), d));
                    outs.push(node);
                    out_families.push(fam.to_string());
                    if rng.chance(1, 3) {
                        // the same family again with other parameters on the same argument types
                        let (node, d) = add_op(&g, &mut p, rng, fam, None)?;
                        ops.push((fam.to_string(), d));
                        outs.push(node);
                        out_families.push(fam.to_string());
                    }
                }
            }
        }
        if let Some(cg) = &callee {
            outs.push(g.call(cg.clone(), ins.clone())?);
            out_families.push("nested-call".to_string());
        }
        if let Some(bg) = &iter_body {
            out_families.push("nested-iterate".to_string());
            let v = g.create_vector(array_type(vec![n, 8], BIT), vec![ins[1].clone(), ins[0].clone(), ins[1].clone()])?;
            outs.push(g.iterate(bg.clone(), ins[0].clone(), v)?);
        }
        g.create_tuple(outs)?.set_as_output()?;
        g.finalize()?;
        g.set_as_main()?;
        ctx.finalize()?;
        let hash = context_hash(&ctx) ^ crate::rng::fnv(format!("{:?}", ops).as_bytes());
        Ok(CustomProg { ctx, input_types: base_types(n), ops, out_families, hash })
    })();
    let _ = (scalar_type(BIT), tuple_type(vec![]), vector_type(0, scalar_type(BIT)));
    r.ok()
}
