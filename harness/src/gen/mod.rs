pub mod builder;
pub mod inl;
pub mod iter;
pub mod mpc;
