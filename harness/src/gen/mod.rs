pub mod builder;
pub mod mpc;
