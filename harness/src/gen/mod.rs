pub mod builder;
pub mod inl;
pub mod mpc;
