pub mod builder;
pub mod custom;
pub mod inl;
pub mod iter;
pub mod mpc;
