//! M4 — typed program builder. Programs are built through the real public graph API; type
//! inference decides by trial whether a proposed node is accepted.

use crate::rng::{fnv, Rng};
use crate::val::{rand_value, st_bits, Fill, ALL_ST, INT_ST};
#[allow(unused_imports)]
use ciphercore_base::data_types::UINT32;
use ciphercore_base::custom_ops::{CustomOperation, Not, Or};
use ciphercore_base::data_types::{
    array_type, named_tuple_type, scalar_type, tuple_type, vector_type, ScalarType, Type, BIT, UINT64,
};
use ciphercore_base::data_values::Value;
use ciphercore_base::errors::Result;
use ciphercore_base::graphs::{Context, Graph, Node, Operation, SliceElement};
use ciphercore_base::ops::adder::BinaryAdd;
use ciphercore_base::ops::comparisons::{
    Equal, GreaterThan, GreaterThanEqualTo, LessThan, LessThanEqualTo, NotEqual,
};
use ciphercore_base::ops::min_max::{Max, Min};
use ciphercore_base::ops::multiplexer::Mux;

#[derive(Clone, Copy, Debug, PartialEq, Eq)]
pub enum Flavor {
    /// MPC-compilable operations without truncation
    Mpc,
    /// fully inlined graphs for the optimizer (adds Random/PRF/NOP, constants, dangling nodes)
    Inl,
    /// every primitive operation, valid and invalid parameters
    Any,
}

pub struct B<'a> {
    pub g: Graph,
    pub pool: Vec<Node>,
    pub rng: &'a mut Rng,
    pub flavor: Flavor,
    pub ops: Vec<String>,
    pub rejected: u64,
    pub max_dim: u64,
    /// callee graphs available for Call (graph, input types)
    pub callees: Vec<(Graph, Vec<Type>)>,
    /// callee graphs available for Iterate (graph, state type, element type)
    pub iter_callees: Vec<(Graph, Type, Type)>,
    pub allow_custom: bool,
    pub allow_truncate: bool,
    /// Sort / public ApplyPermutation inside compositions (costly to compile)
    pub allow_heavy: bool,
    pub max_elems: u64,
    /// called after every add-node API call with (accepted, operation name)
    pub on_result: Option<Box<dyn FnMut(bool, &str)>>,
}

pub fn rand_shape(rng: &mut Rng, max_rank: u64, max_dim: u64) -> Vec<u64> {
    let rank = rng.range(1, max_rank);
    (0..rank).map(|_| rng.range(1, max_dim)).collect()
}

pub fn rand_array_type(rng: &mut Rng, st: ScalarType, max_rank: u64, max_dim: u64) -> Type {
    if rng.chance(1, 6) {
        scalar_type(st)
    } else {
        array_type(rand_shape(rng, max_rank, max_dim), st)
    }
}

fn shape_of(t: &Type) -> Vec<u64> {
    match t {
        Type::Array(s, _) => s.clone(),
        _ => vec![],
    }
}

fn is_arr(t: &Type) -> bool {
    matches!(t, Type::Scalar(_) | Type::Array(_, _))
}

impl<'a> B<'a> {
    pub fn new(g: Graph, rng: &'a mut Rng, flavor: Flavor) -> B<'a> {
        B {
            g,
            pool: vec![],
            rng,
            flavor,
            ops: vec![],
            rejected: 0,
            max_dim: 4,
            callees: vec![],
            iter_callees: vec![],
            allow_custom: true,
            allow_truncate: false,
            allow_heavy: false,
            max_elems: 4096,
            on_result: None,
        }
    }

    pub fn ty(&self, n: &Node) -> Type {
        n.get_type().unwrap()
    }

    pub fn accept(&mut self, r: Result<Node>, name: &str) -> Option<Node> {
        if let Some(f) = self.on_result.as_mut() {
            f(r.is_ok(), name);
        }
        match r {
            Ok(n) => {
                // keep programs small: drop results that are too big
                if let Ok(t) = n.get_type() {
                    if let Ok(bits) = ciphercore_base::data_types::get_size_in_bits(t) {
                        if bits > self.max_elems * 128 {
                            // node stays in the graph as a dangling node, but is not reused
                            self.ops.push(name.to_string());
                            return None;
                        }
                    }
                }
                self.ops.push(name.to_string());
                self.pool.push(n.clone());
                Some(n)
            }
            Err(_) => {
                self.rejected += 1;
                None
            }
        }
    }

    pub fn input(&mut self, t: Type) -> Node {
        let n = self.g.input(t).unwrap();
        self.pool.push(n.clone());
        n
    }

    pub fn pick_where(&mut self, pred: impl Fn(&Type) -> bool) -> Option<Node> {
        let cands: Vec<usize> = (0..self.pool.len())
            .filter(|i| pred(&self.pool[*i].get_type().unwrap()))
            .collect();
        if cands.is_empty() {
            return None;
        }
        // bias towards recent nodes so that programs form chains
        let k = if self.rng.bool() {
            cands[cands.len() - 1 - self.rng.usize(cands.len().min(3))]
        } else {
            *self.rng.pick(&cands)
        };
        Some(self.pool[k].clone())
    }

    pub fn pick_arr(&mut self) -> Option<Node> {
        self.pick_where(is_arr)
    }

    pub fn pick_int_arr(&mut self) -> Option<Node> {
        self.pick_where(|t| is_arr(t) && t.get_scalar_type() != BIT)
    }

    pub fn pick_bit_arr(&mut self) -> Option<Node> {
        self.pick_where(|t| is_arr(t) && t.get_scalar_type() == BIT)
    }

    pub fn constant(&mut self, t: Type, fill: Fill) -> Option<Node> {
        let v = rand_value(self.rng, &t, fill);
        let r = self.g.constant(t, v);
        self.accept(r, "Constant")
    }

    /// a shape that broadcasts with `s`
    fn broadcastable(&mut self, s: &[u64]) -> Vec<u64> {
        let mut out: Vec<u64> = s.to_vec();
        for d in out.iter_mut() {
            if self.rng.chance(1, 3) {
                *d = 1;
            }
        }
        // drop some leading dims
        let drop = self.rng.usize(out.len() + 1);
        let mut out = out[drop..].to_vec();
        if self.rng.chance(1, 5) {
            out.insert(0, self.rng.range(1, 3));
        }
        out
    }

    pub fn partner(&mut self, a: &Node) -> Option<Node> {
        let ta = self.ty(a);
        let st = ta.get_scalar_type();
        match self.rng.below(10) {
            0..=5 => {
                let r = self.pick_where(|t| is_arr(t) && t.get_scalar_type() == st);
                r
            }
            6 => Some(a.clone()),
            _ => {
                let s = self.broadcastable(&shape_of(&ta));
                let t = if s.is_empty() {
                    scalar_type(st)
                } else {
                    array_type(s, st)
                };
                let fill = crate::val::pick_fill(self.rng);
                self.constant(t, fill)
            }
        }
    }

    pub fn p_arith(&mut self) -> Option<Node> {
        let a = self.pick_arr()?;
        let b = self.partner(&a)?;
        let (x, y) = if self.rng.bool() { (a, b) } else { (b, a) };
        if self.rng.chance(1, 8) {
            // both operand orders of one operation over the same two nodes, both kept alive
            let which = self.rng.below(3);
            let mk = |g: &Graph, p: Node, q: Node| match which {
                0 => g.add(p, q),
                1 => g.subtract(p, q),
                _ => g.multiply(p, q),
            };
            let name = ["Add", "Subtract", "Multiply"][which as usize];
            let r1 = mk(&self.g, x.clone(), y.clone());
            let n1 = self.accept(r1, name)?;
            let r2 = mk(&self.g, y, x);
            let n2 = self.accept(r2, name)?;
            let r = self.g.create_tuple(vec![n1, n2]);
            return self.accept(r, "CreateTuple");
        }
        match self.rng.below(3) {
            0 => {
                let r = self.g.add(x, y);
                self.accept(r, "Add")
            }
            1 => {
                let r = self.g.subtract(x, y);
                self.accept(r, "Subtract")
            }
            _ => {
                let r = self.g.multiply(x, y);
                self.accept(r, "Multiply")
            }
        }
    }

    pub fn p_mixed_multiply(&mut self) -> Option<Node> {
        let a = self.pick_int_arr()?;
        let b = match self.pick_bit_arr() {
            Some(b) if self.rng.chance(3, 4) => b,
            _ => {
                let s = self.broadcastable(&shape_of(&self.ty(&a)));
                let t = if s.is_empty() {
                    scalar_type(BIT)
                } else {
                    array_type(s, BIT)
                };
                self.constant(t, Fill::Uniform)?
            }
        };
        let r = self.g.mixed_multiply(a, b);
        self.accept(r, "MixedMultiply")
    }

    fn transpose_last2(&mut self, a: &Node) -> Option<Node> {
        let s = shape_of(&self.ty(a));
        if s.len() < 2 {
            return None;
        }
        let mut perm: Vec<u64> = (0..s.len() as u64).collect();
        let n = perm.len();
        perm.swap(n - 1, n - 2);
        let r = self.g.permute_axes(a.clone(), perm);
        self.accept(r, "PermuteAxes")
    }

    pub fn p_matmul_like(&mut self) -> Option<Node> {
        let a = self.pick_where(|t| matches!(t, Type::Array(_, _)))?;
        let ta = self.ty(&a);
        let sa = shape_of(&ta);
        let st = ta.get_scalar_type();
        // find / make a compatible right operand
        let b = match self.rng.below(4) {
            0 => {
                let r = self.pick_where(|t| matches!(t, Type::Array(_, st2) if *st2 == st));
                r?
            }
            1 if sa.len() >= 2 => self.transpose_last2(&a)?,
            _ => {
                // constant / new shape [k, m] or [k]
                let k = *sa.last().unwrap();
                let s = if self.rng.bool() {
                    vec![k, self.rng.range(1, self.max_dim)]
                } else if self.rng.bool() {
                    vec![k]
                } else {
                    vec![self.rng.range(1, 2), k, self.rng.range(1, 3)]
                };
                self.constant(array_type(s, st), Fill::Uniform)?
            }
        };
        match self.rng.below(3) {
            0 => {
                let r = self.g.matmul(a, b);
                self.accept(r, "Matmul")
            }
            1 => {
                let r = self.g.dot(a, b);
                self.accept(r, "Dot")
            }
            _ => {
                let (ta_, tb_) = (self.rng.bool(), self.rng.bool());
                // gemm wants rank >= 2 operands; with tb the right operand is [.., m, k]
                let b2 = if tb_ { self.transpose_last2(&b).unwrap_or(b) } else { b };
                let a2 = if ta_ { self.transpose_last2(&a).unwrap_or(a) } else { a };
                let r = self.g.gemm(a2, b2, ta_, tb_);
                self.accept(r, "Gemm")
            }
        }
    }

    pub fn p_dot_scalar(&mut self) -> Option<Node> {
        let a = self.pick_arr()?;
        let st = self.ty(&a).get_scalar_type();
        let b = if self.rng.bool() {
            self.constant(scalar_type(st), Fill::Uniform)?
        } else {
            a.clone()
        };
        let r = self.g.dot(a, b);
        self.accept(r, "Dot")
    }

    pub fn p_a2b(&mut self) -> Option<Node> {
        let a = self.pick_int_arr()?;
        let r = self.g.a2b(a);
        self.accept(r, "A2B")
    }

    pub fn p_b2a(&mut self) -> Option<Node> {
        let a = self.pick_where(|t| match t {
            Type::Array(s, st) => *st == BIT && [8, 16, 32, 64, 128].contains(s.last().unwrap()),
            _ => false,
        })?;
        let w = *shape_of(&self.ty(&a)).last().unwrap();
        let cands: Vec<ScalarType> = INT_ST
            .iter()
            .filter(|st| st_bits(**st) as u64 == w)
            .cloned()
            .collect();
        let st = *self.rng.pick(&cands);
        let r = self.g.b2a(a, st);
        self.accept(r, "B2A")
    }

    pub fn p_sum(&mut self) -> Option<Node> {
        let a = self.pick_where(|t| matches!(t, Type::Array(_, _)))?;
        let rank = shape_of(&self.ty(&a)).len() as u64;
        let mut axes: Vec<u64> = (0..rank).filter(|_| self.rng.bool()).collect();
        if self.flavor == Flavor::Any && self.rng.chance(1, 8) {
            axes.push(self.rng.range(0, rank + 1));
        }
        let r = self.g.sum(a, axes);
        self.accept(r, "Sum")
    }

    pub fn p_cumsum(&mut self) -> Option<Node> {
        let a = self.pick_where(|t| matches!(t, Type::Array(_, _)))?;
        let rank = shape_of(&self.ty(&a)).len() as u64;
        let hi = if self.flavor == Flavor::Any { rank } else { rank - 1 };
        let axis = self.rng.range(0, hi);
        let r = self.g.cum_sum(a, axis);
        self.accept(r, "CumSum")
    }

    pub fn p_get(&mut self) -> Option<Node> {
        let a = self.pick_where(|t| matches!(t, Type::Array(_, _)))?;
        let s = shape_of(&self.ty(&a));
        let k = self.rng.range(1, s.len() as u64) as usize;
        let slack = if self.flavor == Flavor::Any && self.rng.chance(1, 6) { 1 } else { 0 };
        let idx: Vec<u64> = (0..k).map(|i| self.rng.below(s[i] + slack)).collect();
        let r = self.g.get(a, idx);
        self.accept(r, "Get")
    }

    pub fn rand_slice(&mut self, s: &[u64]) -> Vec<SliceElement> {
        let mut out = vec![];
        let mut ellipsis_used = false;
        for d in s.iter() {
            let d = *d as i64;
            match self.rng.below(8) {
                0 => out.push(SliceElement::SingleIndex(self.rng.irange(-d, d - 1))),
                1 if !ellipsis_used => {
                    out.push(SliceElement::Ellipsis);
                    ellipsis_used = true;
                    break;
                }
                2 => break,
                _ => {
                    let opt = |r: &mut Rng, lo: i64, hi: i64| -> Option<i64> {
                        if r.chance(1, 3) {
                            None
                        } else {
                            Some(r.irange(lo, hi))
                        }
                    };
                    let start = opt(self.rng, -d - 1, d + 1);
                    let stop = opt(self.rng, -d - 1, d + 1);
                    let step = match self.rng.below(6) {
                        0 => None,
                        1 => Some(-1),
                        2 => Some(-2),
                        3 => Some(2),
                        4 => Some(1),
                        _ => Some(self.rng.irange(1, 3)),
                    };
                    out.push(SliceElement::SubArray(start, stop, step));
                }
            }
        }
        if ellipsis_used && self.rng.bool() {
            let d = *s.last().unwrap() as i64;
            out.push(SliceElement::SingleIndex(self.rng.irange(-d, d - 1)));
        }
        out
    }

    pub fn p_get_slice(&mut self) -> Option<Node> {
        let a = self.pick_where(|t| matches!(t, Type::Array(_, _)))?;
        let s = shape_of(&self.ty(&a));
        let sl = self.rand_slice(&s);
        let r = self.g.get_slice(a, sl);
        self.accept(r, "GetSlice")
    }

    pub fn p_permute(&mut self) -> Option<Node> {
        let a = self.pick_where(|t| matches!(t, Type::Array(_, _)))?;
        let rank = shape_of(&self.ty(&a)).len();
        let mut perm: Vec<u64> = (0..rank as u64).collect();
        self.rng.shuffle(&mut perm);
        if self.flavor == Flavor::Any && self.rng.chance(1, 8) && rank > 1 {
            perm[0] = perm[1];
        }
        let r = self.g.permute_axes(a, perm);
        self.accept(r, "PermuteAxes")
    }

    pub fn p_reshape(&mut self) -> Option<Node> {
        let a = self.pick_where(|t| matches!(t, Type::Array(_, _)))?;
        let ta = self.ty(&a);
        let n: u64 = shape_of(&ta).iter().product();
        // factor n into up to 3 dims
        let mut dims = vec![];
        let mut rest = n;
        for _ in 0..2 {
            let divs: Vec<u64> = (1..=rest).filter(|d| rest % d == 0).collect();
            let d = *self.rng.pick(&divs);
            dims.push(d);
            rest /= d;
        }
        dims.push(rest);
        if self.rng.bool() {
            dims.retain(|d| *d != 1);
            if dims.is_empty() {
                dims.push(1);
            }
        }
        if self.flavor == Flavor::Any && self.rng.chance(1, 8) {
            dims[0] += 1;
        }
        let r = self.g.reshape(a, array_type(dims, ta.get_scalar_type()));
        self.accept(r, "Reshape")
    }

    /// Reshape between arbitrary types: the flattened leaves are regrouped into another container
    /// structure and single leaves reshaped; one time in five a near miss (one leaf gets another
    /// scalar type, another element count, or a leaf is dropped / added)
    pub fn p_reshape_any(&mut self) -> Option<Node> {
        let a = self.pick_where(|_| true)?;
        let ta = self.ty(&a);
        fn leaves(t: &Type, out: &mut Vec<Type>) {
            match t {
                Type::Scalar(_) | Type::Array(_, _) => out.push(t.clone()),
                Type::Tuple(v) => v.iter().for_each(|x| leaves(x, out)),
                Type::NamedTuple(v) => v.iter().for_each(|(_, x)| leaves(x, out)),
                Type::Vector(n, x) => (0..*n).for_each(|_| leaves(x, out)),
            }
        }
        let mut ls: Vec<Type> = vec![];
        leaves(&ta, &mut ls);
        if ls.is_empty() || ls.len() > 12 {
            return None;
        }
        // reshape single leaves, keeping the element count
        let mut new_ls: Vec<Type> = vec![];
        for l in ls.iter() {
            let st = l.get_scalar_type();
            let n: u64 = if l.is_array() { l.get_shape().iter().product() } else { 1 };
            let t = match self.rng.below(4) {
                0 => l.clone(),
                1 if n == 1 => scalar_type(st),
                1 => array_type(vec![n], st),
                2 => array_type(vec![1, n], st),
                _ => {
                    let divs: Vec<u64> = (1..=n).filter(|d| n % d == 0).collect();
                    let d = *self.rng.pick(&divs);
                    array_type(vec![d, n / d], st)
                }
            };
            new_ls.push(t);
        }
        if self.rng.chance(1, 5) {
            let i = self.rng.usize(new_ls.len());
            let l = new_ls[i].clone();
            let st = l.get_scalar_type();
            let other = *self.rng.pick(&crate::val::ALL_ST);
            match self.rng.below(4) {
                0 | 1 => {
                    // another scalar type (same or different width)
                    new_ls[i] = if l.is_array() { array_type(l.get_shape(), other) } else { scalar_type(other) };
                }
                2 => {
                    let mut sh = if l.is_array() { l.get_shape() } else { vec![1] };
                    sh[0] += 1;
                    new_ls[i] = array_type(sh, st);
                }
                _ => {
                    if self.rng.bool() && new_ls.len() > 1 {
                        new_ls.remove(i);
                    } else {
                        new_ls.push(scalar_type(st));
                    }
                }
            }
        }
        // regroup
        let target = match self.rng.below(4) {
            0 if new_ls.len() == 1 => new_ls[0].clone(),
            1 if new_ls.len() >= 2 => {
                let k = self.rng.range(1, new_ls.len() as u64 - 1) as usize;
                tuple_type(vec![tuple_type(new_ls[..k].to_vec()), tuple_type(new_ls[k..].to_vec())])
            }
            2 if new_ls.iter().all(|t| *t == new_ls[0]) => vector_type(new_ls.len() as u64, new_ls[0].clone()),
            3 => named_tuple_type(new_ls.iter().enumerate().map(|(i, t)| (format!("f{}", i), t.clone())).collect()),
            _ => tuple_type(new_ls.clone()),
        };
        let r = self.g.reshape(a, target);
        self.accept(r, "Reshape")
    }

    pub fn p_stack(&mut self) -> Option<Node> {
        let a = self.pick_arr()?;
        let ta = self.ty(&a);
        let st = ta.get_scalar_type();
        let k = self.rng.range(1, 4);
        let mut nodes = vec![a.clone()];
        for _ in 1..k {
            let n = match self.rng.below(3) {
                0 => a.clone(),
                1 => {
                    let r = self.pick_where(|t| is_arr(t) && t.get_scalar_type() == st);
                    r.unwrap_or(a.clone())
                }
                _ => {
                    let s = self.broadcastable(&shape_of(&ta));
                    let t = if s.is_empty() { scalar_type(st) } else { array_type(s, st) };
                    self.constant(t, Fill::Uniform)?
                }
            };
            nodes.push(n);
        }
        let outer = if k == 4 && self.rng.bool() {
            vec![2, 2]
        } else if k == 1 && self.rng.bool() {
            vec![1, 1]
        } else {
            vec![k]
        };
        let r = self.g.stack(nodes, outer);
        self.accept(r, "Stack")
    }

    pub fn p_concat(&mut self) -> Option<Node> {
        let a = self.pick_where(|t| matches!(t, Type::Array(_, _)))?;
        let ta = self.ty(&a);
        let s = shape_of(&ta);
        let st = ta.get_scalar_type();
        let axis = self.rng.below(s.len() as u64);
        let k = self.rng.range(2, 3);
        let mut nodes = vec![a.clone()];
        for _ in 1..k {
            let n = match self.rng.below(3) {
                0 => a.clone(),
                1 => {
                    let s2 = s.clone();
                    let r = self.pick_where(|t| match t {
                        Type::Array(x, st2) => {
                            *st2 == st
                                && x.len() == s2.len()
                                && (0..x.len()).all(|i| i as u64 == axis || x[i] == s2[i])
                        }
                        _ => false,
                    });
                    r.unwrap_or(a.clone())
                }
                _ => {
                    let mut s2 = s.clone();
                    s2[axis as usize] = self.rng.range(1, 3);
                    self.constant(array_type(s2, st), Fill::Uniform)?
                }
            };
            nodes.push(n);
        }
        let r = self.g.concatenate(nodes, axis);
        self.accept(r, "Concatenate")
    }

    pub fn p_tuple(&mut self) -> Option<Node> {
        let k = self.rng.range(0, 3) as usize;
        let mut els = vec![];
        for _ in 0..k {
            els.push(self.rng.pick(&self.pool.clone()).clone());
        }
        if self.rng.bool() {
            let r = self.g.create_tuple(els);
            self.accept(r, "CreateTuple")
        } else {
            let named: Vec<(String, Node)> = els
                .into_iter()
                .enumerate()
                .map(|(i, n)| (format!("f{}", i), n))
                .collect();
            let r = self.g.create_named_tuple(named);
            self.accept(r, "CreateNamedTuple")
        }
    }

    pub fn p_vector(&mut self) -> Option<Node> {
        let a = self.rng.pick(&self.pool.clone()).clone();
        let ta = self.ty(&a);
        let k = self.rng.range(0, 3);
        let mut els = vec![];
        for i in 0..k {
            if i == 0 || self.rng.bool() {
                els.push(a.clone());
            } else {
                let ta2 = ta.clone();
                let r = self.pick_where(|t| *t == ta2);
                els.push(r.unwrap_or(a.clone()));
            }
        }
        let r = self.g.create_vector(ta, els);
        self.accept(r, "CreateVector")
    }

    pub fn p_tuple_get(&mut self) -> Option<Node> {
        let a = self.pick_where(|t| matches!(t, Type::Tuple(v) if !v.is_empty()) || matches!(t, Type::NamedTuple(v) if !v.is_empty()))?;
        match self.ty(&a) {
            Type::Tuple(v) => {
                let slack = if self.flavor == Flavor::Any && self.rng.chance(1, 6) { 1 } else { 0 };
                let i = self.rng.below(v.len() as u64 + slack);
                let r = self.g.tuple_get(a, i);
                self.accept(r, "TupleGet")
            }
            Type::NamedTuple(v) => {
                let name = self.rng.pick(&v).0.clone();
                let r = self.g.named_tuple_get(a, name);
                self.accept(r, "NamedTupleGet")
            }
            _ => None,
        }
    }

    pub fn p_vector_get(&mut self) -> Option<Node> {
        let a = self.pick_where(|t| matches!(t, Type::Vector(n, _) if *n > 0))?;
        let n = match self.ty(&a) {
            Type::Vector(n, _) => n,
            _ => unreachable!(),
        };
        let i = self.rng.below(n);
        let idx = {
            let r = self
                .g
                .constant(scalar_type(UINT64), Value::from_scalar(i, UINT64).unwrap());
            self.accept(r, "Constant")?
        };
        let r = self.g.vector_get(a, idx);
        self.accept(r, "VectorGet")
    }

    pub fn p_zip(&mut self) -> Option<Node> {
        let a = self.pick_where(|t| matches!(t, Type::Vector(_, _)))?;
        let n = match self.ty(&a) {
            Type::Vector(n, _) => n,
            _ => unreachable!(),
        };
        let b = self
            .pick_where(|t| matches!(t, Type::Vector(m, _) if *m == n))
            .unwrap_or(a.clone());
        let r = self.g.zip(vec![a, b]);
        self.accept(r, "Zip")
    }

    pub fn p_repeat(&mut self) -> Option<Node> {
        let a = self.rng.pick(&self.pool.clone()).clone();
        let n = self.rng.range(if self.flavor == Flavor::Any { 0 } else { 1 }, 3);
        let r = self.g.repeat(a, n);
        self.accept(r, "Repeat")
    }

    pub fn p_a2v(&mut self) -> Option<Node> {
        let a = self.pick_where(|t| matches!(t, Type::Array(_, _)))?;
        let r = self.g.array_to_vector(a);
        self.accept(r, "ArrayToVector")
    }

    pub fn p_v2a(&mut self) -> Option<Node> {
        let a = self.pick_where(|t| matches!(t, Type::Vector(n, et) if *n > 0 && is_arr(et)))?;
        let r = self.g.vector_to_array(a);
        self.accept(r, "VectorToArray")
    }

    pub fn p_zeros_ones(&mut self) -> Option<Node> {
        let st = *self.rng.pick(&ALL_ST);
        let t = rand_array_type(self.rng, st, 3, self.max_dim);
        if self.rng.bool() {
            let r = self.g.zeros(t);
            self.accept(r, "Zeros")
        } else {
            let r = self.g.ones(t);
            self.accept(r, "Ones")
        }
    }

    pub fn p_custom_bits(&mut self) -> Option<Node> {
        // comparison / min-max / adder / mux on bit arrays
        let a = self.pick_where(|t| matches!(t, Type::Array(_, st) if *st == BIT))?;
        let ta = self.ty(&a);
        let b = {
            let ta2 = ta.clone();
            match self.rng.below(3) {
                0 => self.pick_where(|t| *t == ta2).unwrap_or(a.clone()),
                1 => self.constant(ta.clone(), Fill::Uniform)?,
                _ => {
                    // broadcast over leading dims, keep the last (bit) dimension
                    let s = shape_of(&ta);
                    let last = *s.last().unwrap();
                    let mut lead = self.broadcastable(&s[..s.len() - 1]);
                    lead.push(last);
                    self.constant(array_type(lead, BIT), Fill::Uniform)?
                }
            }
        };
        let signed = self.rng.bool();
        let (op, name): (CustomOperation, &str) = match self.rng.below(11) {
            0 => (CustomOperation::new(GreaterThan { signed_comparison: signed }), "GreaterThan"),
            1 => (CustomOperation::new(LessThan { signed_comparison: signed }), "LessThan"),
            2 => (
                CustomOperation::new(GreaterThanEqualTo { signed_comparison: signed }),
                "GreaterThanEqualTo",
            ),
            3 => (
                CustomOperation::new(LessThanEqualTo { signed_comparison: signed }),
                "LessThanEqualTo",
            ),
            4 => (CustomOperation::new(Equal {}), "Equal"),
            5 => (CustomOperation::new(NotEqual {}), "NotEqual"),
            6 => (CustomOperation::new(Min { signed_comparison: signed }), "Min"),
            7 => (CustomOperation::new(Max { signed_comparison: signed }), "Max"),
            8 => (CustomOperation::new(BinaryAdd { overflow_bit: self.rng.bool() }), "BinaryAdd"),
            9 => (CustomOperation::new(Or {}), "Or"),
            _ => {
                let r = self.g.custom_op(CustomOperation::new(Not {}), vec![a]);
                return self.accept(r, "Not");
            }
        };
        let r = self.g.custom_op(op, vec![a, b]);
        self.accept(r, name)
    }

    pub fn p_mux(&mut self) -> Option<Node> {
        let c = self.pick_bit_arr()?;
        let a = self.pick_arr()?;
        let b = self.partner(&a)?;
        let r = self.g.custom_op(CustomOperation::new(Mux {}), vec![c, a, b]);
        self.accept(r, "Mux")
    }

    pub fn p_call(&mut self) -> Option<Node> {
        if self.callees.is_empty() {
            return None;
        }
        let (cg, its) = self.rng.pick(&self.callees.clone()).clone();
        let mut args = vec![];
        for it in its.iter() {
            let it2 = it.clone();
            let n = match self.pick_where(|t| *t == it2) {
                Some(n) => n,
                None => self.constant(it.clone(), Fill::Uniform)?,
            };
            args.push(n);
        }
        let r = self.g.call(cg, args);
        self.accept(r, "Call")
    }

    pub fn p_iterate(&mut self) -> Option<Node> {
        if self.iter_callees.is_empty() {
            return None;
        }
        let (cg, st, et) = self.rng.pick(&self.iter_callees.clone()).clone();
        let st2 = st.clone();
        let state = match self.pick_where(|t| *t == st2) {
            Some(n) => n,
            None => self.constant(st.clone(), Fill::Uniform)?,
        };
        let len = self.rng.range(0, 5);
        let mut els = vec![];
        for _ in 0..len {
            let et2 = et.clone();
            let n = match self.pick_where(|t| *t == et2) {
                Some(n) if self.rng.chance(2, 3) => n,
                _ => self.constant(et.clone(), Fill::Uniform)?,
            };
            els.push(n);
        }
        let vec_node = {
            let r = self.g.create_vector(et.clone(), els);
            self.accept(r, "CreateVector")?
        };
        let r = self.g.iterate(cg, state, vec_node);
        let it = self.accept(r, "Iterate")?;
        // expose both components
        let r0 = self.g.tuple_get(it.clone(), 0);
        self.accept(r0, "TupleGet");
        let r1 = self.g.tuple_get(it, 1);
        self.accept(r1, "TupleGet")
    }

    /// one random step of the MPC-compilable alphabet
    pub fn step_mpc(&mut self) -> Option<Node> {
        match self.rng.below(40) {
            0..=7 => self.p_arith(),
            8..=9 => self.p_mixed_multiply(),
            10..=13 => self.p_matmul_like(),
            14 => self.p_dot_scalar(),
            15..=16 => self.p_a2b(),
            17..=18 => self.p_b2a(),
            19 => self.p_sum(),
            20 => self.p_cumsum(),
            21 => self.p_get(),
            22..=23 => self.p_get_slice(),
            24 => self.p_permute(),
            25 => self.p_reshape(),
            26 => self.p_stack(),
            27 => self.p_concat(),
            28 => self.p_tuple(),
            29 => self.p_vector(),
            30 => self.p_tuple_get(),
            31 => self.p_vector_get(),
            32 => self.p_zip(),
            33 => self.p_repeat(),
            34 => self.p_a2v(),
            35 => self.p_v2a(),
            36 => {
                if self.allow_truncate && self.rng.chance(2, 3) {
                    self.p_truncate()
                } else {
                    self.p_zeros_ones()
                }
            }
            37 => {
                if self.allow_custom {
                    if self.rng.chance(1, 4) {
                        self.p_mux()
                    } else {
                        self.p_custom_bits()
                    }
                } else {
                    self.p_arith()
                }
            }
            38 => {
                if self.allow_heavy && self.rng.chance(1, 3) {
                    if self.rng.bool() {
                        self.p_sort_columns()
                    } else {
                        self.p_apply_public_permutation()
                    }
                } else {
                    self.p_call()
                }
            }
            _ => self.p_iterate(),
        }
    }
}

impl<'a> B<'a> {
    /// Sort a table assembled from existing arrays that share their first dimension; the key is a
    /// bit column taken from the pool or produced by A2B. Returns one column of the sorted table,
    /// so that the sort result feeds later operations (a consumer the resharing planner must see).
    pub fn p_sort_columns(&mut self) -> Option<Node> {
        let key_src = self.pick_where(|t| matches!(t, Type::Array(s, st) if s.len() <= 2 && s[0] <= 6 && (*st == BIT && s.len() == 2 || *st != BIT && s.len() == 1)))?;
        let kt = self.ty(&key_src);
        let n = shape_of(&kt)[0];
        let key = if kt.get_scalar_type() == BIT {
            key_src
        } else {
            // integer column -> its bits as the key (unsigned 8/16-bit types keep the table small)
            if st_bits(kt.get_scalar_type()) > 16 {
                return None;
            }
            let r = self.g.a2b(key_src);
            self.accept(r, "A2B")?
        };
        let mut cols = vec![("key".to_string(), key)];
        for i in 0..self.rng.range(1, 2) {
            if let Some(c) = self.pick_where(|t| matches!(t, Type::Array(s, _) if s[0] == n && s.len() <= 2)) {
                cols.push((format!("c{}", i), c));
            }
        }
        let r = self.g.create_named_tuple(cols.clone());
        let nt = self.accept(r, "CreateNamedTuple")?;
        let r = self.g.sort(nt, "key".to_string());
        let sorted = self.accept(r, "Sort")?;
        let name = cols[self.rng.usize(cols.len())].0.clone();
        let r = self.g.named_tuple_get(sorted, name);
        self.accept(r, "NamedTupleGet")
    }

    /// ApplyPermutation / ApplyInversePermutation with a PUBLIC (constant) permutation
    pub fn p_apply_public_permutation(&mut self) -> Option<Node> {
        let a = self.pick_where(|t| matches!(t, Type::Array(s, _) if s[0] <= 8))?;
        let n = shape_of(&self.ty(&a))[0];
        let mut p: Vec<u128> = (0..n as u128).collect();
        self.rng.shuffle(&mut p);
        let r = self.g.constant(array_type(vec![n], UINT64), crate::val::value_of_ints(&p, UINT64));
        let pn = self.accept(r, "Constant")?;
        let r = if self.rng.bool() { self.g.apply_permutation(a, pn) } else { self.g.apply_inverse_permutation(a, pn) };
        self.accept(r, "ApplyPermutation")
    }
}

/// Structural hash of a finalized context: operations, parameters, dependency lists.
pub fn context_hash(c: &Context) -> u64 {
    let mut acc: Vec<u8> = vec![];
    for g in c.get_graphs() {
        acc.extend_from_slice(b"G");
        for n in g.get_nodes() {
            let op = n.get_operation();
            let s = match &op {
                Operation::Constant(t, _) => format!("Constant({})", t),
                Operation::Custom(c) => format!("Custom({})", c.get_name()),
                o => format!("{:?}", o),
            };
            acc.extend_from_slice(s.as_bytes());
            for d in n.get_node_dependencies() {
                acc.extend_from_slice(&d.get_id().to_le_bytes());
            }
            for d in n.get_graph_dependencies() {
                acc.extend_from_slice(&d.get_id().to_le_bytes());
            }
            acc.push(b';');
        }
        if let Ok(o) = g.get_output_node() {
            acc.extend_from_slice(&o.get_id().to_le_bytes());
        }
    }
    fnv(&acc)
}

pub fn vt(n: u64, t: Type) -> Type {
    vector_type(n, t)
}

pub fn tt(v: Vec<Type>) -> Type {
    tuple_type(v)
}

// ------------------------------------------------------------------------------------------
// Additional proposers for the "any primitive operation" alphabet (G_any / G_inl)
// ------------------------------------------------------------------------------------------
impl<'a> B<'a> {
    pub fn p_truncate(&mut self) -> Option<Node> {
        let a = self.pick_int_arr()?;
        let w = st_bits(self.ty(&a).get_scalar_type()) as u64;
        let scale: u128 = match self.rng.below(8) {
            0 => 1,
            1 => 2,
            2 => 3,
            3 => 10,
            4 => 1u128 << self.rng.below(w - 1),
            5 if self.flavor == Flavor::Any => 0,
            // 2^(w-1) is outside the documented domain of secure truncation (k <= w-2): only for
            // the plaintext alphabets
            6 if self.flavor != Flavor::Mpc => 1u128 << (w - 1),
            _ => self.rng.range(1, 1000) as u128,
        };
        let r = self.g.truncate(a, scale);
        self.accept(r, "Truncate")
    }

    pub fn p_random(&mut self) -> Option<Node> {
        if self.rng.chance(1, 3) {
            let n = self.rng.range(if self.flavor == Flavor::Any { 0 } else { 1 }, 6);
            let r = self.g.random_permutation(n);
            self.accept(r, "RandomPermutation")
        } else {
            let st = *self.rng.pick(&ALL_ST);
            let t = rand_array_type(self.rng, st, 2, 3);
            let r = self.g.random(t);
            self.accept(r, "Random")
        }
    }

    pub fn key_node(&mut self) -> Option<Node> {
        let kt = array_type(vec![128], BIT);
        let kt2 = kt.clone();
        match self.rng.below(4) {
            0 => {
                let r = self.pick_where(|t| *t == kt2);
                match r {
                    Some(n) => Some(n),
                    None => {
                        let r = self.g.random(kt);
                        self.accept(r, "Random")
                    }
                }
            }
            1 => self.constant(kt, Fill::Uniform),
            _ => {
                let r = self.pick_where(|t| *t == kt2);
                match r {
                    Some(n) => Some(n),
                    None => {
                        let r = self.g.random(kt);
                        self.accept(r, "Random")
                    }
                }
            }
        }
    }

    pub fn p_prf(&mut self) -> Option<Node> {
        let key = self.key_node()?;
        let iv = self.rng.below(3);
        if self.rng.chance(1, 4) {
            let n = self.rng.range(1, 6);
            let r = key.permutation_from_prf(iv, n);
            self.accept(r, "PermutationFromPRF")
        } else {
            let st = *self.rng.pick(&ALL_ST);
            let t = rand_array_type(self.rng, st, 2, 3);
            let r = key.prf(iv, t);
            self.accept(r, "PRF")
        }
    }

    pub fn p_nop(&mut self) -> Option<Node> {
        let a = self.rng.pick(&self.pool.clone()).clone();
        let r = a.nop();
        self.accept(r, "NOP")
    }

    pub fn p_gather(&mut self) -> Option<Node> {
        let a = self.pick_where(|t| matches!(t, Type::Array(_, _)))?;
        let s = shape_of(&self.ty(&a));
        let slack = if self.flavor == Flavor::Any && self.rng.chance(1, 8) { 1 } else { 0 };
        let axis = self.rng.below(s.len() as u64 + slack);
        let d = *s.get(axis as usize).unwrap_or(&1);
        let k = self.rng.range(1, d);
        let mut all: Vec<u128> = (0..d as u128).collect();
        self.rng.shuffle(&mut all);
        let mut idx: Vec<u128> = all[..k as usize].to_vec();
        if self.flavor == Flavor::Any && self.rng.chance(1, 6) {
            idx[0] = d as u128 + self.rng.below(3) as u128; // invalid content: runtime error expected
        }
        let ist = *self.rng.pick(&[UINT64, ciphercore_base::data_types::UINT32, ciphercore_base::data_types::UINT16]);
        let it = array_type(vec![k], ist);
        let r = self.g.constant(it, crate::val::value_of_ints(&idx, ist));
        let i = self.accept(r, "Constant")?;
        let r = self.g.gather(a, i, axis);
        self.accept(r, "Gather")
    }

    pub fn perm_node(&mut self, n: u64) -> Option<Node> {
        let pt = array_type(vec![n], UINT64);
        let pt2 = pt.clone();
        match self.rng.below(3) {
            0 => {
                let r = self.pick_where(|t| *t == pt2);
                if r.is_some() {
                    return r;
                }
                let r = self.g.random_permutation(n);
                self.accept(r, "RandomPermutation")
            }
            _ => {
                let mut p: Vec<u128> = (0..n as u128).collect();
                self.rng.shuffle(&mut p);
                if self.flavor == Flavor::Any && self.rng.chance(1, 6) && n > 1 {
                    p[0] = p[1]; // not a permutation: runtime error expected
                }
                let r = self.g.constant(pt, crate::val::value_of_ints(&p, UINT64));
                self.accept(r, "Constant")
            }
        }
    }

    pub fn p_inverse_permutation(&mut self) -> Option<Node> {
        let n = self.rng.range(1, 6);
        let p = self.perm_node(n)?;
        let r = self.g.inverse_permutation(p);
        self.accept(r, "InversePermutation")
    }

    pub fn p_apply_permutation(&mut self) -> Option<Node> {
        let a = self.pick_where(|t| matches!(t, Type::Array(_, _)))?;
        let n = shape_of(&self.ty(&a))[0];
        let p = self.perm_node(n)?;
        let r = if self.rng.bool() {
            self.g.apply_permutation(a, p)
        } else {
            self.g.apply_inverse_permutation(a, p)
        };
        self.accept(r, "ApplyPermutation")
    }

    pub fn p_sort(&mut self) -> Option<Node> {
        let n = self.rng.range(1, 6);
        let b = self.rng.range(1, 5);
        let key = self.constant(array_type(vec![n, b], BIT), Fill::Uniform)?;
        let mut cols = vec![("key".to_string(), key)];
        for i in 0..self.rng.range(0, 2) {
            let c = match self.pick_where(|t| matches!(t, Type::Array(s, _) if s[0] == n)) {
                Some(c) => c,
                None => {
                    let st = *self.rng.pick(&ALL_ST);
                    let m = self.rng.range(1, 3);
                    self.constant(array_type(vec![n, m], st), Fill::Uniform)?
                }
            };
            cols.push((format!("c{}", i), c));
        }
        let r = self.g.create_named_tuple(cols);
        let nt = self.accept(r, "CreateNamedTuple")?;
        let r = self.g.sort(nt, "key".to_string());
        self.accept(r, "Sort")
    }

    pub fn p_segment_cumsum(&mut self) -> Option<Node> {
        let a = self.pick_where(|t| matches!(t, Type::Array(_, st) if *st != BIT))?;
        let ta = self.ty(&a);
        let s = shape_of(&ta);
        let st = ta.get_scalar_type();
        let bin = self.constant(array_type(vec![s[0]], BIT), Fill::Uniform)?;
        let ft = if s.len() == 1 { scalar_type(st) } else { array_type(s[1..].to_vec(), st) };
        let first = self.constant(ft, Fill::Uniform)?;
        let r = self.g.segment_cumsum(a, bin, first);
        self.accept(r, "SegmentCumSum")
    }

    pub fn p_print_assert(&mut self) -> Option<Node> {
        let a = self.rng.pick(&self.pool.clone()).clone();
        if self.rng.bool() {
            let r = self.g.print("dbg".to_string(), a);
            self.accept(r, "Print")
        } else {
            let c = match self.pick_where(|t| *t == scalar_type(BIT)) {
                Some(c) => c,
                None => self.constant(scalar_type(BIT), Fill::Ones)?,
            };
            let r = self.g.assert("chk".to_string(), c, a);
            self.accept(r, "Assert")
        }
    }

    pub fn p_switching(&mut self) -> Option<Node> {
        let n = self.rng.range(1, 6);
        match self.rng.below(2) {
            0 => {
                // switching map: values in 0..n, any multiplicities
                let k = self.rng.range(1, n);
                let vals: Vec<u128> = (0..k).map(|_| self.rng.below(n) as u128).collect();
                let r = self.g.constant(array_type(vec![k], UINT64), crate::val::value_of_ints(&vals, UINT64));
                let m = self.accept(r, "Constant")?;
                let r = self.g.decompose_switching_map(m, n);
                self.accept(r, "DecomposeSwitchingMap")
            }
            _ => {
                // cuckoo map: distinct indices with dummies (u64::MAX)
                let mut vals: Vec<u128> = (0..n as u128).collect();
                self.rng.shuffle(&mut vals);
                for v in vals.iter_mut() {
                    if self.rng.chance(1, 3) {
                        *v = u64::MAX as u128;
                    }
                }
                let r = self.g.constant(array_type(vec![n], UINT64), crate::val::value_of_ints(&vals, UINT64));
                let m = self.accept(r, "Constant")?;
                let r = self.g.cuckoo_to_permutation(m);
                self.accept(r, "CuckooToPermutation")
            }
        }
    }

    /// Near-miss proposals: shape-sensitive operations on arbitrary operands of one scalar type,
    /// WITHOUT pre-filtering for compatible shapes. Almost all of these must be rejected by type
    /// inference; one that is wrongly accepted shows up as an evaluation panic, a value of the
    /// wrong type, or a disagreement with the NumPy model.
    pub fn p_near_miss(&mut self) -> Option<Node> {
        let a = self.pick_where(|t| matches!(t, Type::Array(_, _)))?;
        let ta = self.ty(&a);
        let st = ta.get_scalar_type();
        let rank = shape_of(&ta).len();
        let same_rank = self.rng.bool();
        let b = self.pick_where(|t| match t {
            Type::Array(s, st2) => *st2 == st && (!same_rank || s.len() == rank),
            _ => false,
        })?;
        let c = if self.rng.bool() { Some(self.pick_where(|t| matches!(t, Type::Array(_, st2) if *st2 == st))?) } else { None };
        let mut nodes = vec![a.clone(), b.clone()];
        if let Some(c) = c {
            nodes.push(c);
        }
        if self.rng.bool() {
            nodes.reverse();
        }
        match self.rng.below(9) {
            0 | 1 | 2 => {
                let axis = self.rng.below(rank as u64 + 1);
                let r = self.g.concatenate(nodes, axis);
                self.accept(r, "Concatenate")
            }
            3 => {
                let k = nodes.len() as u64;
                let r = self.g.stack(nodes, vec![k]);
                self.accept(r, "Stack")
            }
            4 => {
                let r = self.g.matmul(nodes[0].clone(), nodes[1].clone());
                self.accept(r, "Matmul")
            }
            5 => {
                let r = self.g.dot(nodes[0].clone(), nodes[1].clone());
                self.accept(r, "Dot")
            }
            6 => {
                let (x, y) = (self.rng.bool(), self.rng.bool());
                let r = self.g.gemm(nodes[0].clone(), nodes[1].clone(), x, y);
                self.accept(r, "Gemm")
            }
            7 => {
                let r = match self.rng.below(3) {
                    0 => self.g.add(nodes[0].clone(), nodes[1].clone()),
                    1 => self.g.multiply(nodes[0].clone(), nodes[1].clone()),
                    _ => self.g.subtract(nodes[0].clone(), nodes[1].clone()),
                };
                self.accept(r, "Arith")
            }
            _ => {
                let t0 = self.ty(&nodes[0]);
                let r = self.g.create_vector(t0, nodes);
                let v = self.accept(r, "CreateVector")?;
                let r = self.g.vector_to_array(v);
                self.accept(r, "VectorToArray")
            }
        }
    }

    /// one random step over all primitive operations
    pub fn step_any(&mut self) -> Option<Node> {
        if self.rng.chance(1, 8) {
            return self.p_near_miss();
        }
        if self.rng.chance(1, 24) {
            return self.p_reshape_any();
        }
        match self.rng.below(16) {
            0..=8 => self.step_mpc(),
            9 => self.p_truncate(),
            10 => self.p_random(),
            11 => match self.rng.below(3) {
                0 => self.p_prf(),
                1 => self.p_nop(),
                _ => self.p_print_assert(),
            },
            12 => self.p_gather(),
            13 => {
                if self.rng.bool() {
                    self.p_inverse_permutation()
                } else {
                    self.p_apply_permutation()
                }
            }
            14 => {
                if self.rng.bool() {
                    self.p_sort()
                } else {
                    self.p_segment_cumsum()
                }
            }
            _ => self.p_switching(),
        }
    }
}
