//! G_mpc — random programs over the MPC-compilable operation set (no truncation).

use super::builder::{context_hash, rand_array_type, Flavor, B};
use crate::rng::Rng;
use crate::val::ALL_ST;
use ciphercore_base::data_types::{array_type, tuple_type, vector_type, Type, BIT};
use ciphercore_base::graphs::{create_context, Context, Graph};

pub struct MpcProg {
    pub ctx: Context,
    pub input_types: Vec<Type>,
    pub out_type: Type,
    pub ops: Vec<String>,
    pub hash: u64,
    pub rejected: u64,
}

fn gen_callee(ctx: &Context, rng: &mut Rng) -> Option<(Graph, Vec<Type>)> {
    let g = ctx.create_graph().ok()?;
    let st = *rng.pick(&ALL_ST);
    let n_in = rng.range(1, 2);
    let mut its = vec![];
    let mut b = B::new(g.clone(), rng, Flavor::Mpc);
    b.allow_custom = false;
    for _ in 0..n_in {
        let t = rand_array_type(b.rng, st, 2, 3);
        its.push(t.clone());
        b.input(t);
    }
    let steps = b.rng.range(1, 3);
    let mut last = None;
    for _ in 0..steps * 3 {
        if let Some(n) = b.step_mpc() {
            last = Some(n);
        }
        if b.ops.len() as u64 >= steps {
            break;
        }
    }
    let out = last.unwrap_or(b.pool[0].clone());
    out.set_as_output().ok()?;
    g.finalize().ok()?;
    Some((g, its))
}

fn gen_iter_body(ctx: &Context, rng: &mut Rng) -> Option<(Graph, Type, Type)> {
    let g = ctx.create_graph().ok()?;
    let st = *rng.pick(&ALL_ST);
    let t = rand_array_type(rng, st, 2, 3);
    let state = g.input(t.clone()).ok()?;
    let inp = g.input(t.clone()).ok()?;
    let ns = match rng.below(3) {
        0 => g.add(state.clone(), inp.clone()),
        1 => g.multiply(state.clone(), inp.clone()),
        _ => g.subtract(inp.clone(), state.clone()),
    }
    .ok()?;
    let out = match rng.below(3) {
        0 => g.multiply(state, inp),
        1 => g.add(ns.clone(), inp),
        _ => g.create_tuple(vec![]),
    }
    .ok()?;
    g.create_tuple(vec![ns, out]).ok()?.set_as_output().ok()?;
    g.finalize().ok()?;
    Some((g, t.clone(), t))
}

pub fn gen_mpc(rng: &mut Rng, min_ops: u64, max_ops: u64) -> MpcProg {
    gen_mpc_opts(rng, min_ops, max_ops, false)
}

pub fn gen_mpc_opts(rng: &mut Rng, min_ops: u64, max_ops: u64, allow_truncate: bool) -> MpcProg {
    let ctx = create_context().unwrap();
    let mut callees = vec![];
    let mut iter_callees = vec![];
    if rng.chance(1, 3) {
        if let Some(c) = gen_callee(&ctx, rng) {
            callees.push(c);
        }
    }
    if rng.chance(1, 4) {
        if let Some(c) = gen_iter_body(&ctx, rng) {
            iter_callees.push(c);
        }
    }
    let g = ctx.create_graph().unwrap();
    let mut b = B::new(g.clone(), rng, Flavor::Mpc);
    b.callees = callees.clone();
    b.iter_callees = iter_callees.clone();
    b.allow_truncate = allow_truncate;
    b.allow_heavy = true;
    let n_in = b.rng.range(1, 4);
    let base_st = *b.rng.pick(&ALL_ST);
    let mut input_types = vec![];
    for i in 0..n_in {
        // mostly one scalar type per program so that operands combine; sometimes another
        let st = if b.rng.chance(2, 3) { base_st } else { *b.rng.pick(&ALL_ST) };
        let t = match b.rng.below(12) {
            0 if !callees.is_empty() => b.rng.pick(&callees[0].1).clone(),
            1 if !iter_callees.is_empty() => iter_callees[0].1.clone(),
            2 => {
                // bit array convertible with B2A
                let w = *b.rng.pick(&[8u64, 16, 32, 64]);
                let mut s = super::builder::rand_shape(b.rng, 2, 3);
                s.push(w);
                if b.rng.bool() {
                    s = vec![w];
                }
                array_type(s, BIT)
            }
            3 => {
                let et = rand_array_type(b.rng, st, 2, 3);
                vector_type(b.rng.range(1, 3), et)
            }
            4 => {
                let t1 = rand_array_type(b.rng, st, 2, 3);
                let st2 = *b.rng.pick(&ALL_ST);
                let t2 = rand_array_type(b.rng, st2, 2, 3);
                tuple_type(vec![t1, t2])
            }
            _ => rand_array_type(b.rng, st, 3, 4),
        };
        let _ = i;
        input_types.push(t.clone());
        b.input(t);
    }
    let target = b.rng.range(min_ops, max_ops);
    let mut tries = 0;
    while (b.ops.len() as u64) < target && tries < target * 6 {
        tries += 1;
        b.step_mpc();
    }
    // output: prefer a late non-input node
    let n_pool = b.pool.len();
    let out = if n_pool > n_in as usize {
        let lo = n_in as usize;
        if b.rng.chance(1, 5) && n_pool - lo >= 2 {
            let a = b.pool[n_pool - 1].clone();
            let c = b.pool[lo + b.rng.usize(n_pool - lo - 1)].clone();
            g.create_tuple(vec![a, c]).unwrap()
        } else if b.rng.chance(3, 4) {
            b.pool[n_pool - 1].clone()
        } else {
            b.pool[lo + b.rng.usize(n_pool - lo)].clone()
        }
    } else {
        b.pool[b.rng.usize(n_pool)].clone()
    };
    let out_type = out.get_type().unwrap();
    out.set_as_output().unwrap();
    let ops = b.ops.clone();
    let rejected = b.rejected;
    g.finalize().unwrap();
    g.set_as_main().unwrap();
    ctx.finalize().unwrap();
    let hash = context_hash(&ctx);
    MpcProg {
        ctx,
        input_types,
        out_type,
        ops,
        hash,
        rejected,
    }
}
