//! Deterministic generator for workloads (xoshiro256** seeded through SplitMix64).
//! No OS entropy is used anywhere in the harness.

#[derive(Clone, Debug)]
pub struct Rng {
    s: [u64; 4],
}

pub fn splitmix(x: &mut u64) -> u64 {
    *x = x.wrapping_add(0x9E3779B97F4A7C15);
    let mut z = *x;
    z = (z ^ (z >> 30)).wrapping_mul(0xBF58476D1CE4E5B9);
    z = (z ^ (z >> 27)).wrapping_mul(0x94D049BB133111EB);
    z ^ (z >> 31)
}

/// FNV-1a over bytes, used for structural hashes and seed derivation.
pub fn fnv(bytes: &[u8]) -> u64 {
    let mut h: u64 = 0xcbf29ce484222325;
    for b in bytes {
        h ^= *b as u64;
        h = h.wrapping_mul(0x100000001b3);
    }
    h
}

pub fn mix(parts: &[u64]) -> u64 {
    let mut h: u64 = 0x243F6A8885A308D3;
    for p in parts {
        let mut x = h ^ p.wrapping_mul(0x9E3779B97F4A7C15);
        h = splitmix(&mut x);
    }
    h
}

impl Rng {
    pub fn new(seed: u64) -> Rng {
        let mut x = seed;
        let s = [
            splitmix(&mut x),
            splitmix(&mut x),
            splitmix(&mut x),
            splitmix(&mut x),
        ];
        Rng { s }
    }
    pub fn from_parts(parts: &[u64]) -> Rng {
        Rng::new(mix(parts))
    }
    pub fn next_u64(&mut self) -> u64 {
        let result = self.s[1].wrapping_mul(5).rotate_left(7).wrapping_mul(9);
        let t = self.s[1] << 17;
        self.s[2] ^= self.s[0];
        self.s[3] ^= self.s[1];
        self.s[1] ^= self.s[2];
        self.s[0] ^= self.s[3];
        self.s[2] ^= t;
        self.s[3] = self.s[3].rotate_left(45);
        result
    }
    pub fn next_u128(&mut self) -> u128 {
        ((self.next_u64() as u128) << 64) | self.next_u64() as u128
    }
    /// uniform in 0..n (n > 0)
    pub fn below(&mut self, n: u64) -> u64 {
        assert!(n > 0);
        // rejection sampling, unbiased
        let zone = u64::MAX - (u64::MAX % n);
        loop {
            let x = self.next_u64();
            if x < zone {
                return x % n;
            }
        }
    }
    pub fn usize(&mut self, n: usize) -> usize {
        self.below(n as u64) as usize
    }
    /// inclusive range
    pub fn range(&mut self, lo: u64, hi: u64) -> u64 {
        lo + self.below(hi - lo + 1)
    }
    pub fn irange(&mut self, lo: i64, hi: i64) -> i64 {
        lo + self.below((hi - lo + 1) as u64) as i64
    }
    pub fn chance(&mut self, num: u64, den: u64) -> bool {
        self.below(den) < num
    }
    pub fn bool(&mut self) -> bool {
        self.next_u64() & 1 == 1
    }
    pub fn pick<'a, T>(&mut self, xs: &'a [T]) -> &'a T {
        &xs[self.usize(xs.len())]
    }
    pub fn seed16(&mut self) -> [u8; 16] {
        let mut out = [0u8; 16];
        out[..8].copy_from_slice(&self.next_u64().to_le_bytes());
        out[8..].copy_from_slice(&self.next_u64().to_le_bytes());
        out
    }
    pub fn bytes(&mut self, n: usize) -> Vec<u8> {
        let mut v = Vec::with_capacity(n);
        while v.len() < n {
            let x = self.next_u64().to_le_bytes();
            for b in x {
                if v.len() < n {
                    v.push(b);
                }
            }
        }
        v
    }
    pub fn shuffle<T>(&mut self, xs: &mut [T]) {
        for i in (1..xs.len()).rev() {
            let j = self.usize(i + 1);
            xs.swap(i, j);
        }
    }
    pub fn fork(&mut self) -> Rng {
        Rng::new(self.next_u64())
    }
}
