//! Shard context: per-case RNG derivation, counters, distinct-case hashes, samples, violations,
//! panic capture, soft deadline. One shard = one process; it writes one JSON summary file.

use crate::rng::{fnv, Rng};
use serde_json::{json, Value as J};
use std::cell::RefCell;
use std::collections::{BTreeMap, HashSet};
use std::panic::{catch_unwind, AssertUnwindSafe};
use std::time::{Duration, Instant};

#[derive(Clone, Copy, Debug, PartialEq, Eq)]
pub enum Tier {
    Quick,
    Thorough,
}

thread_local! {
    static LAST_PANIC: RefCell<Option<String>> = RefCell::new(None);
}

pub fn install_panic_hook() {
    std::panic::set_hook(Box::new(|info| {
        let msg = if let Some(s) = info.payload().downcast_ref::<&str>() {
            s.to_string()
        } else if let Some(s) = info.payload().downcast_ref::<String>() {
            s.clone()
        } else {
            "<non-string panic>".to_string()
        };
        let loc = info
            .location()
            .map(|l| format!("{}:{}", l.file(), l.line()))
            .unwrap_or_else(|| "<unknown>".to_string());
        LAST_PANIC.with(|p| *p.borrow_mut() = Some(format!("{} @ {}", msg, loc)));
    }));
}

#[derive(Clone, Debug)]
pub struct PanicInfo {
    pub message: String,
    /// file:line of the panic, with the /repo prefix stripped
    pub site: String,
}

/// Run a closure, converting a panic into a value. Used at the boundary of ciphercore calls.
pub fn guard<T>(f: impl FnOnce() -> T) -> Result<T, PanicInfo> {
    LAST_PANIC.with(|p| *p.borrow_mut() = None);
    match catch_unwind(AssertUnwindSafe(f)) {
        Ok(v) => Ok(v),
        Err(_) => {
            let s = LAST_PANIC
                .with(|p| p.borrow_mut().take())
                .unwrap_or_else(|| "<no message>".to_string());
            let (message, site) = match s.rfind(" @ ") {
                Some(i) => (s[..i].to_string(), s[i + 3..].to_string()),
                None => (s.clone(), String::new()),
            };
            let site = site.replace("/repo/", "");
            Err(PanicInfo { message, site })
        }
    }
}

pub struct Ctx {
    pub prop: String,
    pub tier: Tier,
    pub seed: u64,
    pub shard: u64,
    pub nshards: u64,
    /// replay mode: only this case key is executed
    pub only_case: Option<String>,
    pub trace: bool,
    pub case_key: String,
    pub rng: Rng,
    pub start: Instant,
    pub soft_deadline: Instant,
    pub truncated: bool,
    pub evaluations: u64,
    counters: BTreeMap<String, u64>,
    hashes: HashSet<u64>,
    samples: Vec<J>,
    violations: Vec<J>,
    violation_counts: BTreeMap<String, u64>,
    harness_errors: Vec<String>,
    extra: BTreeMap<String, J>,
    pub max_samples: usize,
}

impl Ctx {
    pub fn new(prop: &str, tier: Tier, seed: u64, shard: u64, nshards: u64, soft_s: u64) -> Ctx {
        let now = Instant::now();
        Ctx {
            prop: prop.to_string(),
            tier,
            seed,
            shard,
            nshards,
            only_case: None,
            trace: std::env::var("VX_TRACE").is_ok(),
            case_key: String::new(),
            rng: Rng::new(0),
            start: now,
            soft_deadline: now + Duration::from_secs(soft_s),
            truncated: false,
            evaluations: 0,
            counters: BTreeMap::new(),
            hashes: HashSet::new(),
            samples: vec![],
            violations: vec![],
            violation_counts: BTreeMap::new(),
            harness_errors: vec![],
            extra: BTreeMap::new(),
            max_samples: 3,
        }
    }

    pub fn quick(&self) -> bool {
        self.tier == Tier::Quick
    }

    /// pick by tier
    pub fn q<T>(&self, quick: T, thorough: T) -> T {
        if self.quick() {
            quick
        } else {
            thorough
        }
    }

    /// Runs cases `0..total` of a named phase; this shard takes indices congruent to its shard
    /// number. Each case gets an RNG derived only from (seed, property, phase, index), so a
    /// single case can be replayed without running the others.
    pub fn cases(&mut self, phase: &str, total: u64, mut f: impl FnMut(&mut Ctx, u64)) {
        let ph = fnv(phase.as_bytes());
        let pr = fnv(self.prop.as_bytes());
        let mut idx = self.shard;
        while idx < total {
            let key = format!("{}:{}", phase, idx);
            let run = match &self.only_case {
                Some(k) => *k == key,
                None => true,
            };
            if run {
                if self.only_case.is_none() && Instant::now() > self.soft_deadline {
                    self.truncated = true;
                    self.count(&format!("truncated_phase.{}", phase), 1);
                    break;
                }
                self.case_key = key.clone();
                if self.trace {
                    eprintln!("[vx] case {}", key);
                }
                self.rng = Rng::from_parts(&[self.seed, pr, ph, idx]);
                let r = guard(|| f(self, idx));
                if let Err(p) = r {
                    // a panic that no driver-level guard caught: harness problem or an
                    // unexpected crash; never mapped to a violation
                    self.harness_errors
                        .push(format!("case {}: {} @ {}", key, p.message, p.site));
                }
            }
            idx += self.nshards;
        }
    }

    pub fn count(&mut self, key: &str, n: u64) {
        *self.counters.entry(key.to_string()).or_insert(0) += n;
    }

    pub fn counter(&self, key: &str) -> u64 {
        *self.counters.get(key).unwrap_or(&0)
    }

    /// Registers one explored case: `hash` is its structural hash, `nontrivial` the
    /// per-property rule.
    pub fn case_done(&mut self, hash: u64, nontrivial: bool) {
        self.evaluations += 1;
        if nontrivial {
            self.hashes.insert(hash);
        }
    }

    pub fn sample(&mut self, v: J) {
        if self.samples.len() < self.max_samples {
            self.samples.push(v);
        }
    }

    pub fn set_extra(&mut self, key: &str, v: J) {
        self.extra.insert(key.to_string(), v);
    }

    pub fn harness_error(&mut self, msg: String) {
        if self.harness_errors.len() < 50 {
            self.harness_errors.push(format!("case {}: {}", self.case_key, msg));
        }
    }

    /// Records a violation. `sig` is the exact signature used for known-findings matching.
    pub fn violation(&mut self, sig: &str, detail: J) {
        let c = self.violation_counts.entry(sig.to_string()).or_insert(0);
        *c += 1;
        if *c <= 3 {
            self.violations.push(json!({
                "sig": sig,
                "case": self.case_key,
                "seed": self.seed,
                "tier": if self.quick() {"quick"} else {"thorough"},
                "shard": self.shard,
                "nshards": self.nshards,
                "detail": detail,
            }));
        }
    }

    pub fn n_violations(&self) -> usize {
        self.violations.len()
    }

    pub fn summary(&self) -> J {
        let mut hashes: Vec<String> = self.hashes.iter().map(|h| format!("{:016x}", h)).collect();
        hashes.sort();
        let cap = 400_000;
        let hashes_capped = hashes.len() > cap;
        hashes.truncate(cap);
        json!({
            "prop": self.prop,
            "shard": self.shard,
            "nshards": self.nshards,
            "seed": self.seed,
            "evaluations": self.evaluations,
            "distinct_nontrivial": self.hashes.len(),
            "hashes": hashes,
            "hashes_capped": hashes_capped,
            "counters": self.counters,
            "samples": self.samples,
            "violations": self.violations,
            "violation_counts": self.violation_counts,
            "harness_errors": self.harness_errors,
            "truncated": self.truncated,
            "extra": self.extra,
            "wall_s": self.start.elapsed().as_secs_f64(),
        })
    }
}
