use ciphercore_base::graphs::*;
use ciphercore_base::evaluators::simple_evaluator::SimpleEvaluator;
use ciphercore_base::optimizer::optimize::optimize_context;
fn dump(c: &Context) {
    for g in c.get_graphs() {
        println!("graph {}", g.get_id());
        for n in g.get_nodes() {
            let deps: Vec<u64> = n.get_node_dependencies().iter().map(|d| d.get_id()).collect();
            let op = match n.get_operation() { Operation::Constant(t, _) => format!("Constant({})", t), o => format!("{:?}", o) };
            println!("  {:3} {:40} deps={:?} type={} anno={:?} name={:?}", n.get_id(), op, deps, n.get_type().unwrap(), n.get_annotations().unwrap(), n.get_name().unwrap());
        }
        println!("  output {}", g.get_output_node().unwrap().get_id());
    }
}
fn main() {
    let path = std::env::args().nth(1).unwrap();
    let v: serde_json::Value = serde_json::from_str(&std::fs::read_to_string(path).unwrap()).unwrap();
    let cs = v["detail"]["context"].as_str().unwrap();
    let c: Context = serde_json::from_str(cs).unwrap();
    dump(&c);
    if std::env::args().nth(2).as_deref() == Some("opt") {
        let mc = optimize_context(&c, SimpleEvaluator::new(Some([0u8;16])).unwrap()).unwrap();
        println!("--- optimised");
        dump(&mc.get_context());
        for n in c.get_main_graph().unwrap().get_nodes() {
            if mc.mappings.contains_node(&n) { println!("  {} -> {}", n.get_id(), mc.mappings.get_node(&n).get_id()); }
        }
    }
}
