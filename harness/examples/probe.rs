use ciphercore_base::data_types::*;
use ciphercore_base::graphs::*;
fn main() {
    let ts = vec![
        scalar_type(BIT), scalar_type(INT128), array_type(vec![2,3], UINT8),
        tuple_type(vec![scalar_type(BIT), array_type(vec![1], INT16)]),
        vector_type(3, scalar_type(UINT64)),
        named_tuple_type(vec![("a".to_string(), scalar_type(INT32))]),
    ];
    for t in ts { println!("{}   |  {}", serde_json::to_string(&t).unwrap(), t); }
    let ops = vec![
        Operation::Add, Operation::Sum(vec![0,1]), Operation::Gemm(true,false), Operation::Truncate(1u128<<100),
        Operation::GetSlice(vec![SliceElement::SubArray(None,Some(3),Some(-2)), SliceElement::Ellipsis, SliceElement::SingleIndex(-1)]),
        Operation::Reshape(array_type(vec![6], UINT8)), Operation::B2A(INT64), Operation::Stack(vec![2,2]),
        Operation::ApplyPermutation(true), Operation::Repeat(3), Operation::CreateNamedTuple(vec!["x".into()]),
        Operation::NamedTupleGet("x".into()), Operation::TupleGet(1), Operation::Zeros(scalar_type(BIT)),
        Operation::Gather(1), Operation::PermuteAxes(vec![1,0]), Operation::CreateVector(scalar_type(BIT)),
    ];
    for o in ops { println!("{}", serde_json::to_string(&o).unwrap()); }
}
