use vx::props::custom_common::*;
use vx::props::mpc_common::*;
use vx::rng::Rng;
use vx::val::*;
use ciphercore_base::custom_ops::CustomOperation;
use ciphercore_base::data_types::{array_type, INT64};
use ciphercore_base::ops::pwl::approx_exponent::ApproxExponent;
fn main() {
    vx::ctx::install_panic_hook();
    let mut rng = Rng::new(3);
    let xs: Vec<i64> = vec![-3000, -211, 0, 100, 1000, 2000, 3000, 3778, 5000, 7000, 9000];
    let t = array_type(vec![xs.len() as u64], INT64);
    let c = custom_context(CustomOperation::new(ApproxExponent { precision: 10 }), &[t.clone()]).unwrap();
    let input = value_of_ints(&xs.iter().map(|x| *x as u128 & mask(64)).collect::<Vec<_>>(), INT64);
    let plain = eval_instantiated(&c, None, vec![input.clone()], rng.seed16()).unwrap();
    let p = ints_of_value(&plain, &t).unwrap();
    println!("exact  {:?}", xs.iter().map(|x| ((*x as f64 / 1024.0).exp() * 1024.0) as i64).collect::<Vec<_>>());
    println!("plain  {:?}", p.iter().map(|x| to_signed(*x, INT64)).collect::<Vec<_>>());
    let (inline, inline_name) = inline_modes()[0].clone();
    let cfg = Config { owners: vec![Owner::P(0)], outs: vec![0], inline, inline_name };
    if let Compiled::Ok(comp) = compile(&c, &cfg, rng.seed16()) {
        for _ in 0..4 {
            let v = eval_single(&comp, vec![input.clone()], rng.seed16()).unwrap();
            println!("mpc    {:?}", ints_of_value(&v, &t).unwrap().iter().map(|x| to_signed(*x, INT64)).collect::<Vec<_>>());
        }
    }
}
