use vx::props::c19::*;
use vx::props::mpc_common::*;
use vx::rng::Rng;
use vx::val::*;
use ciphercore_base::graphs::JoinType;
fn main() {
    vx::ctx::install_panic_hook();
    let a: Vec<String> = std::env::args().collect();
    let zero_nulls = a.contains(&"zero_nulls".to_string());
    let null_first = a.contains(&"null_first".to_string());
    let no_nulls = a.contains(&"no_nulls".to_string());
    let masked = a.contains(&"masked".to_string());
    let mut rng = Rng::new(7);
    for jt in [JoinType::Inner, JoinType::Left, JoinType::Union, JoinType::Full] {
        let mut bad = 0; let mut tot = 0; let mut err = 0;
        for _ in 0..12 {
            let mut case = gen_join_case(&mut rng, 4, jt, masked);
            for t in [&mut case.a, &mut case.b] {
                if null_first { t.null_pos = 0; }
                if no_nulls { for x in t.null.iter_mut() { *x = 1; } }
                if zero_nulls {
                    for i in 0..t.n { if t.null[i] == 0 { for c in t.cols.iter_mut() { for x in c.data[i].iter_mut() { *x = 0; } c.mask[i] = if masked {0} else {1}; } } }
                }
            }
            if no_nulls {
                // restore uniqueness: skip cases with duplicate keys
                let ka: Vec<String> = case.pairs.iter().map(|p| p.0.clone()).collect();
                let kb: Vec<String> = case.pairs.iter().map(|p| p.1.clone()).collect();
                let mut s = std::collections::HashSet::new();
                let mut dup = false;
                for i in 0..case.a.n { if !s.insert(case.a.cols.iter().filter(|c| ka.contains(&c.name)).map(|c| c.data[i].clone()).collect::<Vec<_>>()) { dup = true; } }
                let mut s = std::collections::HashSet::new();
                for i in 0..case.b.n { if !s.insert(case.b.cols.iter().filter(|c| kb.contains(&c.name)).map(|c| c.data[i].clone()).collect::<Vec<_>>()) { dup = true; } }
                if dup { continue; }
            }
            let c = match join_context(&case) { Ok(c) => c, Err(_) => continue };
            let inputs = vec![case.a.value(), case.b.value()];
            let types = vec![case.a.ty(), case.b.ty()];
            let expected = match source_eval(&c, &inputs, rng.seed16()) { Ok(v) => v, Err(_) => { err += 1; continue } };
            let (inline, inline_name) = inline_modes()[0].clone();
            let cfg = Config { owners: vec![Owner::P(0), Owner::P(1)], outs: vec![0], inline, inline_name };
            let compiled = match compile(&c, &cfg, rng.seed16()) { Compiled::Ok(x) => x, _ => { err += 1; continue } };
            let ins = inputs_single(&mut rng, &cfg, &types, &inputs);
            tot += 1;
            match eval_single(&compiled, ins, rng.seed16()) { Ok(v) => if v != expected { bad += 1; }, Err(e) => { err += 1; println!("   err {}", e); } }
        }
        println!("{:?}: {} of {} differ, {} errors", jt, bad, tot, err);
    }
    let _ = Fill::Zeros;
}
