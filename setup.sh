#!/bin/sh
# Build the harness offline from files on disk (checked-release profile, hooks on).
set -e
cd /verif/harness
cp /repo/Cargo.lock Cargo.lock
CARGO_NET_OFFLINE=true CARGO_TARGET_DIR=/verif/target/checked cargo build --release --offline
